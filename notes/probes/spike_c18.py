import numpy as np, warnings, itertools
warnings.filterwarnings('ignore')
from fractions import Fraction as Fr
from pySDC.helpers.problem_helper import get_finite_difference_matrix, get_finite_difference_stencil, get_1d_grid
def polyder_at(k,d,x):  # d-th derivative of x^k
    if k<d: return 0.0
    c=1
    for i in range(d): c*=(k-i)
    return c*x**(k-d)
bad=0;n=0
for deriv in (1,2,3):
  for order in (2,4,6):
    for bcs in [('dirichlet','dirichlet'),('neumann','neumann'),('dirichlet','neumann'),('neumann','dirichlet')]:
      for reduce in (False,True):
        size=20
        dx,x=get_1d_grid(size,'dirichlet',0.0,1.0)
        # polynomial degree tested
        res={}
        for k in range(0,deriv+order+2):
            p=lambda t: t**k
            vals=[ (p(0.0) if 'dirichlet' in bcs[0] else polyder_at(k,1,0.0)), (p(1.0) if 'dirichlet' in bcs[1] else polyder_at(k,1,1.0)) ]
            try:
                A,b=get_finite_difference_matrix(derivative=deriv, order=order, stencil_type='center', dx=dx, size=size, dim=1, bc=bcs,
                    bc_params=[{'val':vals[0],'reduce':reduce},{'val':vals[1],'reduce':reduce}])
            except Exception as e:
                res[k]='EXC '+type(e).__name__+str(e)[:40]; break
            got=A@p(x)+b; exp=np.array([polyder_at(k,deriv,xi) for xi in x])
            err=np.max(abs(got-exp))/max(1,np.max(abs(exp)))
            res[k]=err
        exact=[k for k,v in res.items() if not isinstance(v,str) and v<1e-7]
        mx=max(exact) if exact else None
        print(deriv,order,bcs,'reduce',reduce,'max exact degree',mx, 'expected<',deriv+order, {k:(v if isinstance(v,str) else f'{v:.0e}') for k,v in res.items() if isinstance(v,str) or v>=1e-7})
