import numpy as np, warnings, logging
warnings.filterwarnings('ignore'); logging.disable(logging.CRITICAL)
from pySDC.core.problem import Problem
from pySDC.core.step import Step
from pySDC.implementations.datatype_classes.mesh import mesh, imex_mesh, comp2_mesh
from pySDC.implementations.sweeper_classes.generic_implicit import generic_implicit
from pySDC.implementations.sweeper_classes.explicit import explicit
from pySDC.implementations.sweeper_classes.imex_1st_order import imex_1st_order
from pySDC.implementations.sweeper_classes.multi_implicit import multi_implicit
from qmat.qdelta import QDELTA_GENERATORS
from qmat import Q_GENERATORS

class Dense(Problem):
    dtype_u=mesh; dtype_f=mesh
    def __init__(self, A=None):
        A=np.asarray(A); super().__init__(init=(A.shape[0],None,np.dtype(A.dtype)))
        self._makeAttributeAndRegister('A',localVars=locals(),readOnly=True)
    def eval_f(self,u,t):
        f=self.f_init; f[:]=self.A@u; return f
    def solve_system(self,rhs,factor,u0,t):
        me=self.u_init; me[:]=np.linalg.solve(np.eye(len(rhs))-factor*self.A, rhs); return me
class DenseIMEX(Dense):
    dtype_f=imex_mesh
    def __init__(self, A=None, B=None):
        super().__init__(A); self.B=np.asarray(B)
    def eval_f(self,u,t):
        f=self.f_init; f.impl[:]=self.A@u; f.expl[:]=self.B@u; return f
class Dense2(DenseIMEX):
    dtype_f=comp2_mesh
    def eval_f(self,u,t):
        f=self.f_init; f.comp1[:]=self.A@u; f.comp2[:]=self.B@u; return f
    def solve_system_1(self,rhs,factor,u0,t): return self.solve_system(rhs,factor,u0,t)
    def solve_system_2(self,rhs,factor,u0,t):
        me=self.u_init; me[:]=np.linalg.solve(np.eye(len(rhs))-factor*self.B, rhs); return me

rng=np.random.default_rng(1)
def qd(name, coll_kw, k=None, explicit=False):
    g=Q_GENERATORS['Collocation'](nNodes=coll_kw['num_nodes'],nodeType=coll_kw.get('node_type','LEGENDRE'),quadType=coll_kw['quad_type'],tLeft=0,tRight=1)
    gen=QDELTA_GENERATORS[name](qGen=g,tLeft=0)
    if explicit:
        c,d=gen.genCoeffs(k=k,dTau=True); return g, c, d
    return g, gen.genCoeffs(k=k), None

def level(prob_cls, pp, sw, swp, dt):
    S=Step(dict(problem_class=prob_cls, problem_params=pp, sweeper_class=sw, sweeper_params=swp, level_params={'dt':dt}))
    L=S.levels[0]; L.status.time=0.3; L.status.unlocked=True; L.status.sweep=1
    return L
worst=0
n=4
for trial in range(40):
    M=int(rng.integers(1,5)); qt=['RADAU-RIGHT','LOBATTO','GAUSS','RADAU-LEFT'][trial%4]
    if qt in ('LOBATTO','RADAU-LEFT') and M<2: M=2
    dt=10**rng.uniform(-2,0)
    A=rng.standard_normal((n,n)); B=rng.standard_normal((n,n))
    kw={'num_nodes':M,'quad_type':qt}
    g,QI,_=qd('LU',kw); _,QE,dtau=qd('EE',kw,explicit=True)
    Q=g.Q
    for which in ['impl','expl','imex','multi']:
        if which=='impl': L=level(Dense,{'A':A},generic_implicit,{**kw,'QI':'LU'},dt)
        if which=='expl': L=level(Dense,{'A':A},explicit,{**kw,'QE':'EE'},dt)
        if which=='imex': L=level(DenseIMEX,{'A':A,'B':B},imex_1st_order,{**kw,'QI':'LU','QE':'EE'},dt)
        if which=='multi': L=level(Dense2,{'A':A,'B':B},multi_implicit,{**kw,'Q1':'LU','Q2':'LU'},dt)
        P=L.prob
        U=rng.standard_normal((M+1,n)); tau=rng.standard_normal((M,n)) if trial%2 else None
        for m in range(M+1):
            L.u[m]=P.u_init; L.u[m][:]=U[m]; L.f[m]=P.eval_f(L.u[m],0.0)
        if tau is not None:
            for m in range(M): L.tau[m]=P.u_init; L.tau[m][:]=tau[m]
        L.sweep.update_nodes()
        got=np.array([np.array(L.u[m+1]) for m in range(M)])
        Uold=U[1:].reshape(-1); u0=np.tile(U[0],M); I=np.eye(M*n); T=tau.reshape(-1) if tau is not None else 0
        kron=np.kron
        if which=='impl':
            exp=np.linalg.solve(I-dt*kron(QI,A), u0+dt*kron(Q-QI,A)@Uold+T)
        if which=='expl':
            exp=np.linalg.solve(I-dt*kron(QE,A), u0+dt*kron(Q-QE,A)@Uold+T)
        if which=='imex':
            exp=np.linalg.solve(I-dt*kron(QI,A)-dt*kron(QE,B), u0+dt*(kron(Q-QI,A)+kron(Q-QE,B))@Uold+T)
        if which=='multi':
            # node by node two solves
            exp=np.zeros((M,n)); 
            Fo1=(A@U[1:].T).T; Fo2=(B@U[1:].T).T
            for m in range(M):
                r=U[0]+dt*sum(Q[m,j]*(Fo1[j]+Fo2[j]) for j in range(M))-dt*sum(QI[m,j]*Fo1[j] for j in range(M))+(tau[m] if tau is not None else 0)
                r=r+dt*sum(QI[m,j]*(A@exp[j]) for j in range(m))
                v=np.linalg.solve(np.eye(n)-dt*QI[m,m]*A, r)
                r2=v-dt*sum(QI[m,j]*Fo2[j] for j in range(M))+dt*sum(QI[m,j]*(B@exp[j]) for j in range(m))
                exp[m]=np.linalg.solve(np.eye(n)-dt*QI[m,m]*B, r2)
            exp=exp.reshape(-1)
        err=np.max(abs(got.reshape(-1)-exp))/max(1,np.max(abs(exp)))
        worst=max(worst,err)
        if err>1e-10: print('MISMATCH',which,qt,M,dt,err)
print('worst rel err',worst)
