import numpy as np, warnings, logging, copy
warnings.filterwarnings('ignore'); logging.disable(logging.CRITICAL)
from pySDC.implementations.problem_classes.HeatEquation_ND_FD import heatNd_unforced
from pySDC.implementations.sweeper_classes.generic_implicit import generic_implicit
from pySDC.implementations.controller_classes.controller_nonMPI import controller_nonMPI
from pySDC.implementations.transfer_classes.TransferMesh import mesh_to_mesh
def base(nlev=2):
    d=dict(problem_class=heatNd_unforced, problem_params={'nvars':[15,7][:nlev],'nu':0.1,'freq':2,'bc':'dirichlet-zero'}, sweeper_class=generic_implicit,
        sweeper_params={'num_nodes':[3,2][:nlev],'quad_type':'RADAU-RIGHT','QI':'LU'}, level_params={'dt':0.05,'restol':1e-8}, step_params={'maxiter':5})
    if nlev>1: d.update(space_transfer_class=mesh_to_mesh, space_transfer_params={'iorder':2,'rorder':2})
    return d, {'logger_level':50,'dump_setup':False}
def attempt(name, np_, mod):
    d,cp=base(mod.get('nlev',2)); mod['f'](d,cp)
    try:
        c=controller_nonMPI(np_, cp, d)
        if 'post' in mod: mod['post'](c)
        P=c.MS[0].levels[0].prob
        c.run(P.u_exact(0),0.0,0.1)
        print(f'{name:40s} NOT REJECTED')
    except BaseException as e:
        print(f'{name:40s} {type(e).__name__}: {str(e)[:70]!r}')
def rm(k): return lambda d,cp: d.pop(k)
T=[('drop problem_class',1,{'f':rm('problem_class')}),('drop sweeper_class',1,{'f':rm('sweeper_class')}),('drop sweeper_params',1,{'f':rm('sweeper_params')}),('drop level_params',1,{'f':rm('level_params')}),
 ('drop num_nodes',1,{'f':lambda d,cp: d['sweeper_params'].pop('num_nodes')}),
 ('no space transfer',1,{'f':rm('space_transfer_class')}),
 ('bad predict_type ML',1,{'f':lambda d,cp: cp.update(predict_type='foo')}),
 ('bad predict_type 1lev',1,{'nlev':1,'f':lambda d,cp: cp.update(predict_type='foo')}),
 ('bad residual_type',1,{'f':lambda d,cp: d['level_params'].update(residual_type='foo')}),
 ('bad initial_guess',1,{'f':lambda d,cp: d['sweeper_params'].update(initial_guess='foo')}),
 ('bad quad_type',1,{'f':lambda d,cp: d['sweeper_params'].update(quad_type='foo')}),
 ('bad node_type',1,{'f':lambda d,cp: d['sweeper_params'].update(node_type='foo')}),
 ('bad QI',1,{'f':lambda d,cp: d['sweeper_params'].update(QI='foo')}),
 ('nsweeps coarse>1',1,{'f':lambda d,cp: d['level_params'].update(nsweeps=[1,2])}),
 ('PFASST GAUSS',2,{'f':lambda d,cp: d['sweeper_params'].update(quad_type='GAUSS')}),
 ('PFASST RADAU-LEFT',2,{'f':lambda d,cp: d['sweeper_params'].update(quad_type='RADAU-LEFT')}),
 ('dtype_u key',1,{'f':lambda d,cp: d.update(dtype_u=1)}),('predict key',1,{'f':lambda d,cp: cp.update(predict=True)}),
 ('level.status.foo',1,{'f':lambda d,cp:None,'post':lambda c: setattr(c.MS[0].levels[0].status,'foo',1)}),
 ('level.params.foo',1,{'f':lambda d,cp:None,'post':lambda c: setattr(c.MS[0].levels[0].params,'foo',1)}),
 ('step.status.foo',1,{'f':lambda d,cp:None,'post':lambda c: setattr(c.MS[0].status,'foo',1)}),
 ('step.params.foo',1,{'f':lambda d,cp:None,'post':lambda c: setattr(c.MS[0].params,'foo',1)}),
 ('sweep.params.foo',1,{'f':lambda d,cp:None,'post':lambda c: setattr(c.MS[0].levels[0].sweep.params,'foo',1)}),
 ('controller.params.foo',1,{'f':lambda d,cp:None,'post':lambda c: setattr(c.params,'foo',1)}),
 ('level.foo',1,{'f':lambda d,cp:None,'post':lambda c: setattr(c.MS[0].levels[0],'foo',1)}),
 ('step.foo',1,{'f':lambda d,cp:None,'post':lambda c: setattr(c.MS[0],'foo',1)}),
 ('prob.nvars=',1,{'f':lambda d,cp:None,'post':lambda c: setattr(c.MS[0].levels[0].prob,'nvars',(3,))}),
 ('unknown level_params key',1,{'f':lambda d,cp: d['level_params'].update(foo=1)}),
 ('unknown controller key',1,{'f':lambda d,cp: cp.update(foo=1)}),
 ('valid',2,{'f':lambda d,cp:None}),
]
for t in T: attempt(*t)
# C13 quick
from pySDC.implementations.datatype_classes.mesh import mesh, imex_mesh
a=mesh(((4,),None,np.dtype('float64')),val=1.0); b=a; a+=1.0; print('iadd alias kept', b[0], a[0], a is b)
a=mesh(((4,),None,np.dtype('float64')),val=1.0); b=a; np.add(a,1.0,out=a); print('np.add out=a ->', b[0], type(a))
a=mesh(((4,),None,np.dtype('float64')),val=1.0); b=a; a[:]+=1.0; print('slice iadd', b[0])
f=imex_mesh(((4,),None,np.dtype('float64')),val=1.0); f.impl[:]=5; print('component view writes parent', f[0,0], type(f.impl), type(f+f), type(f.impl+f.expl), type(2*f), type(abs(f)))
c=mesh(a); c[0]=99; print('copy independent', a[0])
print(type(a[1:3]), type(a[0]), type(np.sin(a)), type(a.sum()), type(a@a) if a.ndim==1 else None, type(np.max(a)))
