import numpy as np, warnings, logging
warnings.filterwarnings('ignore')
logging.disable(logging.CRITICAL)
from pySDC.implementations.problem_classes.HeatEquation_ND_FD import heatNd_unforced, heatNd_forced
from pySDC.implementations.sweeper_classes.generic_implicit import generic_implicit
from pySDC.implementations.sweeper_classes.imex_1st_order import imex_1st_order
from pySDC.implementations.controller_classes.controller_nonMPI import controller_nonMPI
from pySDC.implementations.transfer_classes.TransferMesh import mesh_to_mesh
from pySDC.implementations.hooks.log_solution import LogSolution
from pySDC.helpers.stats_helper import get_sorted
def mk(np_=3, init='spread', QI='LU'):
    desc=dict(problem_class=heatNd_forced, problem_params={'nvars':[31,15],'nu':0.1,'freq':2,'bc':'dirichlet-zero'}, sweeper_class=imex_1st_order,
        sweeper_params={'num_nodes':[3,2],'quad_type':'RADAU-RIGHT','QI':QI,'initial_guess':init}, level_params={'dt':0.05,'restol':1e-10}, step_params={'maxiter':30},
        space_transfer_class=mesh_to_mesh, space_transfer_params={'iorder':4,'rorder':2})
    return controller_nonMPI(np_, {'logger_level':50,'dump_setup':False,'hook_class':[LogSolution],'predict_type':'pfasst_burnin'}, desc)
c=mk()
P=c.MS[0].levels[0].prob
u0=P.u_exact(0.0); u0c=np.array(u0).copy()
uA,sA=c.run(u0,0.0,0.3)
print('u0 unchanged', np.array_equal(u0,u0c))
logged=[(t,np.array(v).copy(),v) for t,v in get_sorted(sA,type='u')]
uB,sB=c.run(u0,0.0,0.3)
print('rerun same controller bit-identical', np.array_equal(uA,uB), [k for k,_ in get_sorted(sA,type='niter')]==[k for k,_ in get_sorted(sB,type='niter')], [v for _,v in get_sorted(sA,type='niter')], [v for _,v in get_sorted(sB,type='niter')])
print('logged values of run A unchanged after run B', all(np.array_equal(a,b) for _,a,b in logged))
c2=mk()
uC,sC=c2.run(u0,0.0,0.3)
print('fresh controller bit-identical', np.array_equal(uA,uC))
# split
c3=mk()
u1,s1=c3.run(u0,0.0,0.15)
u2,s2=c3.run(u1,0.15,0.3)
print('split at block boundary identical', np.array_equal(u2,uA), np.max(abs(u2-uA)))
# random initial guess
c=mk(init='random'); a,_=c.run(u0,0,0.3); b,_=c.run(u0,0,0.3); c2=mk(init='random'); d,_=c2.run(u0,0,0.3)
print('random guess: same controller rerun', np.array_equal(a,b), 'fresh', np.array_equal(a,d))
