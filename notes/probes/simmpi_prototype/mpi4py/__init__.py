from . import MPI  # noqa
