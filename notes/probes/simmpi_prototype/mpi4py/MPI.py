"""Spike of a simulated MPI: one thread per rank, baton scheduling, seeded scheduler."""
import threading, random, hashlib
import numpy as np

SUM, MAX, MIN, LAND, LOR = 'SUM', 'MAX', 'MIN', 'LAND', 'LOR'
INT, DOUBLE, BOOL = 'INT', 'DOUBLE', 'BOOL'
REQUEST_NULL = None

class Deadlock(Exception): pass

class World:
    def __init__(self, n, seed=0):
        self.n = n; self.rng = random.Random(seed)
        self.cv = threading.Condition()
        self.current = None
        self.blocked = {}       # rank -> predicate
        self.done = set()
        self.log = []
        self.pending_sends = []  # dicts
        self.pending_recvs = []
        self.coll = {}
        self.failed = None
        self.tl = threading.local()
    # --- scheduling
    def rank(self): return self.tl.rank
    def yield_(self, pred=None):
        """scheduling point; if pred given, block until pred() true."""
        me = self.rank()
        with self.cv:
            if pred is not None and not pred():
                self.blocked[me] = pred
            self._pick_next()
            while self.current != me:
                if self.failed: raise self.failed
                self.cv.wait()
            if self.failed: raise self.failed
    def _pick_next(self):
        # called with cv held
        for r, p in list(self.blocked.items()):
            if p(): del self.blocked[r]
        runnable = [r for r in range(self.n) if r not in self.done and r not in self.blocked]
        if not runnable:
            if len(self.done) < self.n:
                self.failed = Deadlock(f'deadlock: blocked={sorted(self.blocked)} log tail={self.log[-6:]}')
                self.current = None
                self.cv.notify_all()
                return
            self.current = None
        else:
            self.current = self.rng.choice(runnable)
        self.cv.notify_all()
    def finish(self):
        with self.cv:
            self.done.add(self.rank())
            self._pick_next()
    # --- matching
    def try_match(self):
        for r in list(self.pending_recvs):
            for s in self.pending_sends:
                if s['comm'] is r['comm'] and s['dest'] == r['me'] and s['src'] == r['source'] and s['tag'] == r['tag']:
                    data = s['data'] if s['copied'] else s['getter']()
                    if s['digest'] is not None and not s['copied']:
                        assert digest(s['buf']) == s['digest'], 'send buffer modified before completion'
                    r['setter'](data)
                    r['req'].complete = True; s['req'].complete = True
                    self.pending_recvs.remove(r); self.pending_sends.remove(s)
                    self.log.append(('match', s['src'], r['me'], s['tag']))
                    break

def digest(a):
    return hashlib.blake2b(np.ascontiguousarray(a).view(np.uint8).tobytes(), digest_size=8).hexdigest()

class Request:
    def __init__(self, world): self.world = world; self.complete = False; self.cancelled = False
    def Test(self):
        self.world.yield_()
        return self.complete
    def Wait(self):
        self.world.yield_(lambda: self.complete or self.cancelled)
    def Cancel(self): self.cancelled = True
    wait = Wait

def _buf(b):
    if isinstance(b, (list, tuple)): b = b[0]
    return b

class Comm:
    def __init__(self, world, members):
        self.world = world; self.members = list(members); self.cid = id(self)
    @property
    def rank(self): return self.members.index(self.world.rank())
    @property
    def size(self): return len(self.members)
    def Get_rank(self): return self.rank
    def Get_size(self): return self.size
    def Free(self): pass
    # collectives: generic gather-all-then-compute
    def _collective(self, name, contrib):
        w = self.world; key = (self.cid, name, getattr(w.tl, 'collseq', {}).get(self.cid, 0))
        seqs = w.tl.__dict__.setdefault('collseq', {}); seqs[self.cid] = seqs.get(self.cid, 0) + 1
        slot = w.coll.setdefault(key, {})
        slot[self.rank] = contrib
        w.log.append(('coll', name, w.rank()))
        w.yield_(lambda: len(slot) == self.size)
        return slot
    def Barrier(self): self._collective('barrier', None)
    def allgather(self, obj):
        s = self._collective('allgather', obj); return [s[i] for i in range(self.size)]
    def bcast(self, obj, root=0):
        s = self._collective('bcast', obj); return s[root]
    def allreduce(self, sendobj, op=SUM):
        s = self._collective('allreduce', sendobj); v = [s[i] for i in range(self.size)]
        return _reduce(v, op)
    def Bcast(self, buf, root=0):
        b = _buf(buf); s = self._collective('Bcast', np.array(b, copy=True)); b[...] = s[root]
    def Reduce(self, sendbuf, recvbuf, root=0, op=SUM):
        s = self._collective('Reduce', np.array(_buf(sendbuf), copy=True))
        if self.rank == root:
            _buf(recvbuf)[...] = _reduce([s[i] for i in range(self.size)], op)
    def Allreduce(self, sendbuf, recvbuf, op=SUM):
        s = self._collective('Allreduce', np.array(_buf(sendbuf), copy=True))
        _buf(recvbuf)[...] = _reduce([s[i] for i in range(self.size)], op)
    def Split(self, color=0, key=0):
        s = self._collective('Split', (int(color), key, self.world.rank()))
        if 'result' not in s:
            groups = {}
            for i in range(self.size):
                c, k, wr = s[i]; groups.setdefault(c, []).append((k, i, wr))
            s['result'] = {c: Intracomm(self.world, [wr for _, _, wr in sorted(g)]) for c, g in groups.items()}
        return s['result'][int(color)]
    # p2p
    def _post_send(self, b, dest, tag, sync, obj=False):
        w = self.world; req = Request(w)
        e = dict(comm=self, src=self.rank, dest=dest, tag=tag, req=req, buf=b, copied=False, digest=None)
        if obj or (not sync and w.rng.random() < 0.5):
            e['data'] = b if obj else np.array(b, copy=True); e['copied'] = True; req.complete = not sync and not obj or False
            if not sync: req.complete = True
        else:
            e['getter'] = lambda: np.array(b, copy=True); e['digest'] = digest(b)
        w.pending_sends.append(e); w.log.append(('post_send', self.rank, dest, tag, sync))
        w.try_match(); w.yield_()
        return req
    def _post_recv(self, setter, source, tag):
        w = self.world; req = Request(w)
        w.pending_recvs.append(dict(comm=self, me=self.rank, source=source, tag=tag, req=req, setter=setter))
        w.log.append(('post_recv', self.rank, source, tag))
        w.try_match(); w.yield_()
        return req
    def Issend(self, buf, dest, tag=0): return self._post_send(_buf(buf), dest, tag, True)
    def Isend(self, buf, dest, tag=0): return self._post_send(_buf(buf), dest, tag, False)
    def Send(self, buf, dest, tag=0): self._post_send(_buf(buf), dest, tag, False).Wait()
    def Irecv(self, buf, source, tag=0):
        b = _buf(buf)
        def setter(d): b[...] = d
        return self._post_recv(setter, source, tag)
    def Recv(self, buf, source, tag=0): self.Irecv(buf, source, tag).Wait()
    def isend(self, obj, dest, tag=0): return self._post_send(obj, dest, tag, False, obj=True)
    def send(self, obj, dest, tag=0): self.isend(obj, dest, tag).Wait()
    def recv(self, source, tag=0):
        box = []
        self._post_recv(box.append, source, tag).Wait()
        return box[0]

def _reduce(v, op):
    if op == SUM:
        out = v[0]
        for x in v[1:]: out = out + x
        return out
    if op == MAX: return max(v)
    if op == MIN: return min(v)
    if op == LAND: return all(v)
    if op == LOR: return any(v)
    raise NotImplementedError(op)

class Intracomm(Comm): pass

_WORLD = None
class _WorldProxy(Intracomm):
    def __init__(self): pass
    def __getattr__(self, k): return getattr(_WORLD.comm_world, k)
COMM_WORLD = _WorldProxy()

def launch(n, fn, seed=0):
    """run fn(rank) on n rank-threads under the scheduler; returns results, world"""
    global _WORLD
    w = World(n, seed); _WORLD = w
    w.comm_world = Intracomm(w, range(n))
    res = [None] * n; err = [None] * n
    def body(r):
        w.tl.rank = r
        try:
            with w.cv:
                while w.current != r:
                    if w.failed: raise w.failed
                    w.cv.wait()
            res[r] = fn(r)
        except BaseException as e:
            err[r] = e
            with w.cv:
                if w.failed is None and not isinstance(e, Deadlock): w.failed = e
        finally:
            w.finish()
    ths = [threading.Thread(target=body, args=(r,), daemon=True) for r in range(n)]
    for t in ths: t.start()
    with w.cv:
        w._pick_next()
    for t in ths: t.join(60)
    return res, err, w
