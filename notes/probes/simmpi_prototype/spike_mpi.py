import sys; sys.path.insert(0, ''+__import__('os').path.dirname(__import__('os').path.abspath(__file__))+'')
import numpy as np, warnings, logging
warnings.filterwarnings('ignore'); logging.disable(logging.CRITICAL)
from mpi4py import MPI
from pySDC.implementations.problem_classes.HeatEquation_ND_FD import heatNd_unforced
from pySDC.implementations.sweeper_classes.generic_implicit import generic_implicit
from pySDC.implementations.controller_classes.controller_nonMPI import controller_nonMPI
from pySDC.implementations.controller_classes.controller_MPI import controller_MPI
from pySDC.implementations.transfer_classes.TransferMesh import mesh_to_mesh
from pySDC.helpers.stats_helper import get_sorted
def desc():
    return dict(problem_class=heatNd_unforced, problem_params={'nvars':[31,15],'nu':0.1,'freq':2,'bc':'dirichlet-zero'}, sweeper_class=generic_implicit,
        sweeper_params={'num_nodes':[3,2],'quad_type':'RADAU-RIGHT','QI':'LU'}, level_params={'dt':0.05,'restol':1e-10}, step_params={'maxiter':30},
        space_transfer_class=mesh_to_mesh, space_transfer_params={'iorder':4,'rorder':2})
cp={'logger_level':50,'dump_setup':False,'predict_type':'pfasst_burnin'}
NP=3; Tend=0.35
c=controller_nonMPI(NP, dict(cp), desc()); P=c.MS[0].levels[0].prob; u0=P.u_exact(0.0)
us,ss=c.run(u0,0.0,Tend)
ref=[v for _,v in get_sorted(ss,type='niter')]
print('serial niter',ref)
import time
for seed in range(6):
    t=time.time()
    def fn(r):
        cm=controller_MPI(dict(cp), desc(), MPI.COMM_WORLD)
        Pm=cm.S.levels[0].prob
        u,s=cm.run(Pm.u_exact(0.0),0.0,Tend)
        return np.array(u), get_sorted(s,type='niter')
    res,err,w=MPI.launch(NP, fn, seed)
    if any(err): print('ERR',[repr(e)[:200] for e in err]); continue
    nit=sorted([x for r in res for x in r[1]])
    print(seed, 'niter', [v for _,v in nit], 'maxdiff', max(float(np.max(abs(r[0]-us))) for r in res), 'events', len(w.log), 'unmatched', len(w.pending_sends), len(w.pending_recvs), f'{time.time()-t:.2f}s')
print([float(np.max(abs(r[0]-us))) for r in res])
import hashlib
orders=set()
for seed in range(20):
    res,err,w=MPI.launch(NP, fn, seed)
    orders.add(hashlib.md5(repr([e for e in w.log if e[0]=='match']).encode()).hexdigest())
print('distinct match orders', len(orders))
