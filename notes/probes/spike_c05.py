import numpy as np, warnings, mpmath as mp
warnings.filterwarnings('ignore')
from pySDC.core.collocation import CollBase
mp.mp.dps=60
bad=0; n=0
for nt in ['EQUID','LEGENDRE','CHEBY-1','CHEBY-2','CHEBY-3','CHEBY-4']:
  for qt in ['GAUSS','LOBATTO','RADAU-LEFT','RADAU-RIGHT']:
    for M in range(1,17):
      for (a,b) in [(0,1),(-3.7,-1.2),(1000.0,1000.5)]:
        try:
            c=CollBase(num_nodes=M,tleft=a,tright=b,node_type=nt,quad_type=qt)
        except Exception as e:
            print('REJ',nt,qt,M,type(e).__name__,str(e)[:60]); break
        n+=1
        x=[(mp.mpf(float(v))-a)/(b-a) for v in c.nodes]
        w=[mp.mpf(float(v))/(b-a) for v in c.weights]
        inc=all(x[i]<x[i+1] for i in range(M-1)); inside = x[0]>=0 and x[-1]<=1
        lf = (abs(x[0])<1e-14)==c.left_is_node; rf=(abs(x[-1]-1)<1e-14)==c.right_is_node
        scale=(abs(a)+abs(b))/(b-a)
        worst=0
        for k in range(c.order):
            s=sum(wi*xi**k for wi,xi in zip(w,x)); ex=mp.mpf(1)/(k+1)
            worst=max(worst,abs(s-ex))
        tol=1e-13*scale*max(1,M)
        # Q exactness
        Q=c.Qmat; wq=0
        for m in range(1,M+1):
            for k in range(M):
                s=sum(mp.mpf(float(Q[m,j]))/(b-a)*x[j-1]**k for j in range(1,M+1)); ex=x[m-1]**(k+1)/(k+1)
                wq=max(wq,abs(s-ex))
        if not (inc and inside and lf and rf) or worst>tol or wq>tol*10:
            bad+=1; print('BAD',nt,qt,M,(a,b),'order',c.order,'inc',inc,inside,lf,rf,'werr',mp.nstr(worst,3),'qerr',mp.nstr(wq,3),'tol',tol)
print('cases',n,'bad',bad)
