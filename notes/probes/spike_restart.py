import numpy as np, warnings, logging
warnings.filterwarnings('ignore')
from pySDC.implementations.problem_classes.TestEquation_0D import testequation0d
from pySDC.implementations.sweeper_classes.generic_implicit import generic_implicit
from pySDC.implementations.controller_classes.controller_nonMPI import controller_nonMPI
from pySDC.core.convergence_controller import ConvergenceController
from pySDC.core.hooks import Hooks
from pySDC.helpers.stats_helper import get_sorted, filter_stats
from pySDC.implementations.hooks.log_solution import LogSolution
from pySDC.implementations.convergence_controller_classes.basic_restarting import BasicRestartingNonMPI

class Inject(ConvergenceController):
    script = {}
    attempts = {}
    def setup(self, controller, params, description, **kw):
        return {'control_order': 90, **super().setup(controller, params, description, **kw)}
    def determine_restart(self, controller, S, **kw):
        if S.status.iter >= S.params.maxiter:
            key = round(S.time, 9)
            n = Inject.attempts.get(key, 0)
            Inject.attempts[key] = n + 1
            if Inject.script.get((key, n), False):
                S.status.restart = True
                for L in S.levels: L.status.dt_new = L.params.dt/2 if Inject.halve else None

class Mon(Hooks):
    log = []
    def pre_step(self, step, level_number):
        super().pre_step(step, level_number)
        L=step.levels[0]; Mon.log.append(('pre', step.status.slot, L.time, L.dt, np.array(L.u[0]).copy()))
    def post_step(self, step, level_number):
        super().post_step(step, level_number)
        L=step.levels[0]; Mon.log.append(('post', step.status.slot, L.time, L.dt, step.status.restart, step.status.restarts_in_a_row, np.array(L.uend).copy()))

def run(np_, script, halve=True, Tend=1.0, dt=0.25, max_restarts=3, rffs=False):
    Inject.script=script; Inject.attempts={}; Inject.halve=halve; Mon.log=[]
    desc=dict(problem_class=testequation0d, problem_params={'lambdas':np.array([-1.0]),'u0':1.0}, sweeper_class=generic_implicit,
        sweeper_params={'num_nodes':2,'quad_type':'RADAU-RIGHT'}, level_params={'dt':dt,'restol':-1}, step_params={'maxiter':2},
        convergence_controllers={Inject:{}, BasicRestartingNonMPI:{'max_restarts':max_restarts,'restart_from_first_step':rffs}})
    c=controller_nonMPI(np_, {'logger_level':50,'dump_setup':False,'hook_class':[Mon,LogSolution],'mssdc_jac':False}, desc)
    P=c.MS[0].levels[0].prob
    u0=P.u_init; u0[:]=1.0
    u,st=c.run(u0,0.0,Tend)
    return u,st
logging.disable(logging.CRITICAL)
u,st=run(2,{(0.25,0):True})
for l in Mon.log: print(l[:6])
print('restart', get_sorted(st,type='restart'))
print('niter all', get_sorted(st,type='niter'))
print('niter recomputed=False', get_sorted(st,type='niter',recomputed=False))
print('u recomputed=False', [(t,complex(v[0])) for t,v in get_sorted(st,type='u',recomputed=False)])
print('---- restart at slot1 twice')
u,st=run(2,{(0.25,0):True,(0.25,1):True})
for l in Mon.log: print(l[:6])
print('niter recomputed=False', get_sorted(st,type='niter',recomputed=False))
print('u recomputed=False', [(t) for t,v in get_sorted(st,type='u',recomputed=False)])
print('==== max_restarts exhaustion at step start 0.25, np=1')
from pySDC.core.errors import ConvergenceError
for np_ in (1,2,3):
  for mr in (0,1,2):
    try:
        u,st=run(np_,{(0.25,i):True for i in range(10)}, halve=True, max_restarts=mr)
        print(np_,mr,'no error')
    except ConvergenceError as e:
        att=[l for l in Mon.log if l[0]=='post' and abs(l[2]-0.25)<1e-12]
        print(np_,mr,'ConvergenceError after attempts at 0.25:',len(att), [ (l[1],l[4],l[5]) for l in att])
print('==== restart near Tend, np=3, Tend=0.6 dt=0.25 (blocks longer than interval)')
u,st=run(3,{(0.5,0):True},Tend=0.6,dt=0.25)
for l in Mon.log: print(l[:6])
print('==== halve=False (no dt_new): restart same dt')
u,st=run(2,{(0.25,0):True},halve=False)
for l in Mon.log[:10]: print(l[:6])
print('==== swallow check: mr=1, np=2, fail at 0.25 once then at 0.375 (fresh step) once')
u,st=run(2,{(0.25,0):True,(0.375,0):True},max_restarts=1)
for l in Mon.log[:12]: print(l[:6])
print('attempt counts', Inject.attempts)
