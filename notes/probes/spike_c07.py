import numpy as np, warnings, logging, itertools, re, time
warnings.filterwarnings('ignore'); logging.disable(logging.CRITICAL)
from pySDC.implementations.problem_classes.HeatEquation_ND_FD import heatNd_unforced
from pySDC.implementations.sweeper_classes.generic_implicit import generic_implicit
from pySDC.implementations.controller_classes.controller_nonMPI import controller_nonMPI
from pySDC.implementations.transfer_classes.TransferMesh import mesh_to_mesh
from pySDC.core.convergence_controller import ConvergenceController
from pySDC.core.hooks import Hooks
from pySDC.helpers.stats_helper import get_sorted
class DoneInj(ConvergenceController):
    table=None
    def setup(self, controller, params, description, **kw):
        return {'control_order': 250, **super().setup(controller, params, description, **kw)}
    def check_iteration_status(self, controller, S, **kw):
        k=S.status.iter
        S.status.done = True if k>=S.params.maxiter else bool(DoneInj.table[S.status.slot][k])
class Tr(Hooks):
    ev=[]
    def _e(self,n,step,l): Tr.ev.append((n, step.status.slot if step else None, l, step.status.iter if step else None))
    def pre_step(s,step,level_number): super().pre_step(step,level_number); s._e('S',step,level_number)
    def pre_predict(s,step,level_number): super().pre_predict(step,level_number); s._e('P',step,level_number)
    def post_predict(s,step,level_number): super().post_predict(step,level_number); s._e('p',step,level_number)
    def pre_iteration(s,step,level_number): super().pre_iteration(step,level_number); s._e('I',step,level_number)
    def pre_sweep(s,step,level_number): super().pre_sweep(step,level_number); s._e('W',step,level_number)
    def post_sweep(s,step,level_number): super().post_sweep(step,level_number); s._e('w',step,level_number)
    def post_iteration(s,step,level_number): super().post_iteration(step,level_number); s._e('i',step,level_number)
    def post_step(s,step,level_number): super().post_step(step,level_number); s._e('E',step,level_number)
GR=re.compile(r'^S(Pp)?(I(Ww)+i)*E$')
def mk(np_, nlev, maxiter, predict, jac, a2d):
    desc=dict(problem_class=heatNd_unforced, problem_params={'nvars':[15,7,3][:nlev],'nu':0.1,'freq':2,'bc':'dirichlet-zero'}, sweeper_class=generic_implicit,
        sweeper_params={'num_nodes':[3,2,2][:nlev],'quad_type':'RADAU-RIGHT','QI':'LU'}, level_params={'dt':0.05,'restol':-1,'nsweeps':[2,1,1][:nlev]}, step_params={'maxiter':maxiter},
        convergence_controllers={DoneInj:{}})
    if nlev>1: desc.update(space_transfer_class=mesh_to_mesh, space_transfer_params={'iorder':2,'rorder':2})
    return controller_nonMPI(np_, {'logger_level':50,'dump_setup':False,'predict_type':predict,'mssdc_jac':jac,'all_to_done':a2d,'hook_class':[Tr]}, desc)
n=0;bad=0;t0=time.time()
for (np_,nlev,maxiter,predict,jac,a2d) in [(3,1,3,None,True,False),(3,1,3,None,False,False),(3,2,3,'pfasst_burnin',True,False),(3,3,2,'fine_only',True,False),(3,2,3,None,True,True)]:
    c=mk(np_,nlev,maxiter,predict,jac,a2d)
    P=c.MS[0].levels[0].prob; u0=P.u_exact(0)
    for bits in itertools.product([0,1],repeat=np_*maxiter):
        DoneInj.table=[bits[i*maxiter:(i+1)*maxiter] for i in range(np_)]
        Tr.ev=[]
        try:
            u,st=c.run(u0,0.0,np_*0.05)
        except Exception as e:
            bad+=1; print('EXC',type(e).__name__,e,DoneInj.table); continue
        n+=1
        for s in range(np_):
            w=''.join(e[0] for e in Tr.ev if e[1]==s)
            if not GR.match(w): bad+=1; print('GRAMMAR',(np_,nlev,maxiter,predict,jac,a2d),DoneInj.table,s,w); break
        ends=[e[1] for e in Tr.ev if e[0]=='E']
        if ends!=sorted(ends): bad+=1; print('ORDER',DoneInj.table,ends)
        if a2d:
            ni=[v for _,v in get_sorted(st,type='niter')]
            if len(set(ni))!=1: bad+=1; print('A2D',DoneInj.table,ni)
print('runs',n,'bad',bad,f'{(time.time()-t0)/max(n,1)*1000:.1f} ms/run')
