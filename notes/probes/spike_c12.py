import numpy as np, warnings, logging, importlib, pkgutil, inspect, time
warnings.filterwarnings('ignore'); logging.disable(logging.CRITICAL)
import pySDC.implementations.problem_classes as pc
from pySDC.core.problem import Problem
rows=[]
for m in pkgutil.iter_modules(pc.__path__):
    if m.ispkg: continue
    name='pySDC.implementations.problem_classes.'+m.name
    try: mod=importlib.import_module(name)
    except Exception: continue
    for cn,c in inspect.getmembers(mod,inspect.isclass):
        if not (issubclass(c,Problem) and c.__module__==name): continue
        t0=time.time()
        try:
            P=c()
        except Exception as e:
            rows.append((cn,'CTOR',type(e).__name__,str(e)[:70])); continue
        info=[f'ctor {time.time()-t0:.1f}s', 'dtype_f='+getattr(P.dtype_f,'__name__','?')]
        try:
            try: u=P.u_exact(0.0)
            except TypeError: u=P.u_exact(0)
            except Exception as e: u=None; info.append('u_exact:'+type(e).__name__)
            if u is None: rows.append((cn,*info)); continue
            ub=np.array(u).copy() if hasattr(u,'shape') else None
            f=P.eval_f(u,0.1)
            if ub is not None and not np.array_equal(ub,np.array(u)): info.append('EVAL_F MODIFIES U')
            for fac in [0.0,1e-3,1e-1]:
                rhs=P.dtype_u(u) if hasattr(u,'shape') else u
                rb=np.array(rhs).copy() if hasattr(rhs,'shape') else None
                try:
                    s=P.solve_system(rhs,fac,P.dtype_u(u) if hasattr(u,'shape') else u,0.1)
                except AttributeError as e:
                    info.append('no solve_system'); break
                if rb is not None and not np.array_equal(rb,np.array(rhs)): info.append(f'SOLVE MODIFIES RHS fac={fac}')
                fs=P.eval_f(s,0.1)
                fi = fs.impl if hasattr(fs,'impl') else (fs.comp1 if hasattr(fs,'comp1') else fs)
                if hasattr(s,'shape'):
                    r=np.max(abs(np.array(s)-fac*np.array(fi)-np.array(rhs)))
                    info.append(f'fac={fac}:res={r:.1e}')
        except Exception as e:
            info.append('EXC '+type(e).__name__+' '+str(e)[:60])
        rows.append((cn,*info))
for r in rows: print(r)
