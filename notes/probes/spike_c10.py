import numpy as np, warnings, logging
warnings.filterwarnings('ignore'); logging.disable(logging.CRITICAL)
from pySDC.implementations.problem_classes.AllenCahn_1D_FD import allencahn_front_fullyimplicit
from pySDC.implementations.problem_classes.HeatEquation_ND_FD import heatNd_unforced
from pySDC.implementations.sweeper_classes.generic_implicit import generic_implicit
from pySDC.implementations.controller_classes.controller_nonMPI import controller_nonMPI
from pySDC.implementations.transfer_classes.TransferMesh import mesh_to_mesh
from pySDC.core.step import Step
import inspect
print(inspect.signature(allencahn_front_fullyimplicit.__init__))
def desc(pc, pp, nlev, finter):
    d=dict(problem_class=pc, problem_params=pp, sweeper_class=generic_implicit, sweeper_params={'num_nodes':[5,3,2][:nlev],'quad_type':'RADAU-RIGHT','QI':'LU'},
        level_params={'dt':1e-3 if pc is allencahn_front_fullyimplicit else 0.05,'restol':1e-13}, step_params={'maxiter':80})
    if nlev>1: d.update(space_transfer_class=mesh_to_mesh, space_transfer_params={'iorder':4,'rorder':2,'periodic':False}, base_transfer_params={'finter':finter})
    return d
for pc,pp in [(heatNd_unforced,{'nvars':[31,15,7],'nu':0.5,'freq':2,'bc':'dirichlet-zero'}),(allencahn_front_fullyimplicit,{'nvars':[31,15,7],'newton_tol':1e-13,'newton_maxiter':100})]:
  for finter in (False,True):
    p1={k:(v[0] if isinstance(v,list) else v) for k,v in pp.items()}
    d1=desc(pc,p1,1,finter); d1['sweeper_params']['num_nodes']=5
    c=controller_nonMPI(1,{'logger_level':50,'dump_setup':False},d1)
    P=c.MS[0].levels[0].prob; u0=P.u_exact(0.0); dt=d1['level_params']['dt']
    c.run(u0,0.0,dt); L1=c.MS[0].levels[0]
    print(pc.__name__,'fine residual',L1.status.residual)
    S=Step(desc(pc,pp,3,finter)); F=S.levels[0]
    for L in S.levels: L.status.time=0.0; L.status.sweep=1
    for m in range(6): F.u[m]=F.prob.dtype_u(L1.u[m]); F.f[m]=F.prob.eval_f(F.u[m],0.0+dt*(0 if m==0 else F.sweep.coll.nodes[m-1]))
    F.status.unlocked=True
    before=[np.array(x).copy() for x in F.u]
    F.sweep.compute_residual(); r_f=[np.array(x).copy() for x in F.residual]
    S.transfer(F,S.levels[1]); 
    G=S.levels[1]; G.sweep.compute_residual(); 
    # restricted fine defect
    bt=S.base_transfer  # last connected (levels 1->2); need the first: rebuild
    print('  coarse1 residual after restrict',G.status.residual)
    G.sweep.update_nodes()
    S.transfer(G,S.levels[2]); H=S.levels[2]; H.sweep.compute_residual(); print('  coarse2 residual after restrict',H.status.residual)
    H.sweep.update_nodes()
    S.transfer(H,G); G.sweep.update_nodes(); S.transfer(G,F)
    after=[np.array(x) for x in F.u]
    print('  finter',finter,'max change of fine values after down-up cycle',max(np.max(abs(a-b)) for a,b in zip(after,before)))
