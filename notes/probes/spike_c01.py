import numpy as np, warnings, logging
warnings.filterwarnings('ignore'); logging.disable(logging.CRITICAL)
from pySDC.implementations.problem_classes.HeatEquation_ND_FD import heatNd_unforced, heatNd_forced
from pySDC.implementations.problem_classes.AdvectionEquation_ND_FD import advectionNd
from pySDC.implementations.sweeper_classes.generic_implicit import generic_implicit
from pySDC.implementations.sweeper_classes.imex_1st_order import imex_1st_order
from pySDC.implementations.controller_classes.controller_nonMPI import controller_nonMPI
from pySDC.implementations.transfer_classes.TransferMesh import mesh_to_mesh
from pySDC.implementations.hooks.log_solution import LogSolution
from pySDC.core.hooks import Hooks
from pySDC.helpers.stats_helper import get_sorted
from qmat import Q_GENERATORS
class Res(Hooks):
    rec=[]
    def post_step(self, step, level_number):
        super().post_step(step, level_number)
        L=step.levels[0]; M=L.sweep.coll.num_nodes
        Res.rec.append((L.time, L.dt, step.status.iter, L.status.residual, [np.array(x).copy() for x in L.u], [np.array(x).copy() for x in L.f], [None if t is None else np.array(t).copy() for t in L.tau]))
def run(forced, np_, restol, rtype='full_abs', qt='RADAU-RIGHT', M=[3,2], predict='pfasst_burnin', QI='LU'):
    pc=heatNd_forced if forced else heatNd_unforced
    desc=dict(problem_class=pc, problem_params={'nvars':[15,7],'nu':0.5,'freq':2,'bc':'dirichlet-zero'}, sweeper_class=imex_1st_order if forced else generic_implicit,
        sweeper_params={'num_nodes':M,'quad_type':qt,'QI':QI}, level_params={'dt':0.05,'restol':restol,'residual_type':rtype}, step_params={'maxiter':60},
        space_transfer_class=mesh_to_mesh, space_transfer_params={'iorder':6,'rorder':2})
    c=controller_nonMPI(np_, {'logger_level':50,'dump_setup':False,'predict_type':predict,'hook_class':[LogSolution,Res]}, desc)
    P=c.MS[0].levels[0].prob; u0=P.u_exact(0.0); Res.rec=[]
    u,st=c.run(u0,0.0,0.05*2*np_)
    return c,P,u0,u,st
for forced in (False,True):
  for rtype in ('full_abs','last_abs','full_rel','last_rel'):
    restol=1e-11
    c,P,u0,u,st=run(forced,3,restol,rtype)
    M=3; g=Q_GENERATORS['Collocation'](nNodes=M,nodeType='LEGENDRE',quadType='RADAU-RIGHT',tLeft=0,tRight=1); Q=g.Q; nodes=g.nodes
    A=P.A.toarray(); n=A.shape[0]
    v=np.array(u0).copy(); worst=0; wres=0
    us=get_sorted(st,type='u')
    for k,(t,dt,it,res,U,F,tau) in enumerate(sorted(Res.rec,key=lambda r:r[0])):
        G=np.zeros((M,n))
        if forced:
            for m in range(M): G[m]=np.array(P.eval_f(P.dtype_u(u0)*0, t+dt*nodes[m]).expl)
        rhs=np.tile(v,M)+dt*(np.kron(Q,np.eye(n))@G.reshape(-1))
        Uref=np.linalg.solve(np.eye(M*n)-dt*np.kron(Q,A), rhs).reshape(M,n)
        v=Uref[-1]
        worst=max(worst,np.max(abs(np.array(us[k][1])-v)))
        # residual recompute
        Ff=[ (f[0]+f[1]) if forced else f for f in F]
        r=[U[0]+dt*sum(Q[m,j]*Ff[j+1] for j in range(M))-U[m+1] for m in range(M)]
        nr=[np.max(abs(x)) for x in r]
        val={'full_abs':max(nr),'last_abs':nr[-1],'full_rel':max(nr)/np.max(abs(U[0])),'last_rel':nr[-1]/np.max(abs(U[0]))}[rtype]
        wres=max(wres,abs(val-res))
    Minv=np.linalg.norm(np.linalg.inv(np.eye(M*n)-dt*np.kron(Q,A)),np.inf)
    print('forced',forced,rtype,'niter',[v for _,v in get_sorted(st,type='niter')],'max err vs collocation',f'{worst:.2e}','returned',f'{np.max(abs(np.array(u)-v)):.2e}','|Minv|',f'{Minv:.1f}','residual recompute diff',f'{wres:.1e}')
