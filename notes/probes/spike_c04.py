import numpy as np, warnings, math, logging
warnings.filterwarnings('ignore')
from pySDC.implementations.problem_classes.TestEquation_0D import testequation0d, test_equation_IMEX
from pySDC.implementations.sweeper_classes.generic_implicit import generic_implicit
from pySDC.implementations.sweeper_classes.explicit import explicit
from pySDC.implementations.sweeper_classes.imex_1st_order import imex_1st_order
from pySDC.implementations.controller_classes.controller_nonMPI import controller_nonMPI
from qmat.qdelta import QDELTA_GENERATORS
N=64; r=0.4
z=r*np.exp(2j*np.pi*np.arange(N)/N)
def R_of(sw, swp, k, dt=1.0, restol=-1):
    desc=dict(problem_class=testequation0d, problem_params={'lambdas':z/dt,'u0':1.0}, sweeper_class=sw, sweeper_params=swp, level_params={'dt':dt,'restol':restol}, step_params={'maxiter':k})
    c=controller_nonMPI(1, {'logger_level':50,'dump_setup':False}, desc)
    P=c.MS[0].levels[0].prob
    u0=P.u_init; u0[:]=1.0
    u,st=c.run(u0,0.0,dt)
    return np.asarray(u), c
def taylor(R,nmax):
    return np.array([np.mean(R*z**(-n)) for n in range(nmax+1)])
logging.disable(logging.CRITICAL)
names=sorted(set(QDELTA_GENERATORS.keys()))
bad=[]
for qd in names:
  for (nt,qt,M) in [('LEGENDRE','RADAU-RIGHT',3),('LEGENDRE','GAUSS',2),('EQUID','LOBATTO',3),('CHEBY-1','GAUSS',3)]:
    try:
        R,c=R_of(generic_implicit, {'num_nodes':M,'quad_type':qt,'node_type':nt,'QI':qd}, 1)
    except Exception as e:
        bad.append((qd,nt,qt,type(e).__name__,str(e)[:50])); continue
    p=c.MS[0].levels[0].sweep.coll.order
    for k in range(1,p+3):
        R,c=R_of(generic_implicit, {'num_nodes':M,'quad_type':qt,'node_type':nt,'QI':qd}, k)
        co=taylor(R,min(k,p))
        err=max(abs(co[n]-1/math.factorial(n)) for n in range(min(k,p)+1))
        if err>1e-10: print('FAIL',qd,nt,qt,M,'k',k,'p',p,err)
print('rejected:',sorted(set(b[0] for b in bad)))
for b in bad[:10]: print(b)
