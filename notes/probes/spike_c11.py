import numpy as np, warnings
warnings.filterwarnings('ignore')
import pySDC.helpers.transfer_helper as th
def lagr_w(xs, x):
    w=[]
    for i,xi in enumerate(xs):
        p=1.0
        for j,xj in enumerate(xs):
            if j!=i: p*=(x-xj)/(xi-xj)
        w.append(p)
    return np.array(w)
bad=0;n=0
for periodic in (True,False):
  for k in (2,4,6,8):
    for e in (3,4,5,6):
      for nested in (True,False):
        if periodic:
            nf=2**e; nc=nf//2; fg=np.arange(nf)/nf; cg=np.arange(nc)/nc
        else:
            nf=2**e-1; nc=2**(e-1)-1; fg=(np.arange(nf)+1)/(nf+1); cg=(np.arange(nc)+1)/(nc+1)
        if k>nc+(0 if periodic else 2): continue
        try:
            P=th.interpolation_matrix_1d(fg,cg,k=k,periodic=periodic,equidist_nested=nested).toarray()
        except Exception as ex:
            print('EXC',periodic,k,e,nested,type(ex).__name__,str(ex)[:60]); continue
        n+=1
        # oracle: extended coarse grid
        if periodic:
            ext_x=np.concatenate([cg-1,cg,cg+1]); ext_i=np.concatenate([np.arange(nc)]*3)
        else:
            ext_x=np.concatenate([[0.0],cg,[1.0]]); ext_i=np.concatenate([[-1],np.arange(nc),[-1]])
        worst=0
        for r,x in enumerate(fg):
            d=np.abs(ext_x-x); order=np.argsort(d,kind='stable')
            # handle ties at the k-th position: try both
            cands=[order[:k]]
            if k<len(order) and abs(d[order[k-1]]-d[order[k]])<1e-12: cands.append(np.concatenate([order[:k-1],[order[k]]]))
            best=1e9
            for c in cands:
                w=lagr_w(ext_x[c],x); row=np.zeros(nc)
                for wi,ci in zip(w,c):
                    if ext_i[ci]>=0: row[ext_i[ci]]+=wi
                best=min(best,np.max(abs(row-P[r])))
            worst=max(worst,best)
        rs=np.max(abs(P.sum(1)-1)) if periodic else None
        if worst>1e-10: bad+=1; print('MISMATCH periodic',periodic,'k',k,'nf',nf,'nested',nested,'worst',worst)
print('cases',n,'bad',bad)
