#!/venv/bin/python
"""Regenerates MANIFEST.json from the check modules that exist (vf/checks/Cxx.py) and tools/manifest_meta.json."""
import importlib, json, os, sys
HERE = os.path.dirname(os.path.dirname(os.path.abspath(__file__)))
sys.path.insert(0, HERE)
meta = json.load(open(os.path.join(HERE, 'tools', 'manifest_meta.json')))
props = [json.loads(l)['id'] for l in open(os.path.join(HERE, 'properties.jsonl'))]
checks, na = [], []
for p in props:
    path = os.path.join(HERE, 'vf', 'checks', f'{p}.py')
    m = meta.get(p, {})
    if os.path.exists(path) and m.get('claimed', False):
        src = open(path).read()
        ns = {}
        mod_level = [l for l in src.splitlines() if l.startswith('LEVEL')][0].split('=')[1].strip().strip("'\"")
        tech = [l for l in src.splitlines() if l.startswith('TECHNIQUE')]
        checks.append(dict(
            property_id=p,
            quick_cmd=f'./check {p} --tier quick',
            thorough_cmd=f'./check {p} --tier thorough',
            evidence_file=f'evidence/{p}.json',
            replay_cmd_template=f'./check {p} --replay {{path}}',
            engine='vf',
            level_claimed=dict(category=mod_level, text=m['text'], design_ref=m.get('design_ref', f'DESIGN.md section 4, {p}')),
            level_note=m['note'],
            technique=m['technique'],
        ))
    else:
        na.append(dict(property_id=p, reason=m.get('na_reason', 'check not built yet in this session (planned, see DESIGN.md section 4); not claimed until its monitor has been validated on the unchanged tree')))
man = dict(
    version=1,
    setup_cmd='sh tools/setup.sh',
    hooks=dict(guard='PYSDC_VERIF', enable='no source hooks: monitors attach through pySDC hook classes, convergence controllers and instance wrappers from /verif (PYSDC_VERIF=1 is exported by ./check for completeness)',
               baseline_off_cmd='cd /repo && /venv/bin/python -m pytest -ra -q -p no:cacheprovider --timeout=900 --continue-on-collection-errors',
               source_commits=[], add_only=True),
    engines=[dict(name='vf', path='vf/', serves_properties=[c['property_id'] for c in checks], kind_free_text='runtime monitors (hook classes, probe/injector convergence controllers, instance wrappers, reference-model oracles, simulated MPI) over generated and fault-injected workloads, sharded over worker subprocesses')],
    checks=checks,
    notes='Every check: ./check <id> --tier quick|thorough [--seed N]; exit 0 held, 1 VIOLATION, 2 INCONCLUSIVE (deciding monitor not reached / harness failure). Known findings: KNOWN_FINDINGS.txt. VERIF_REPO selects the tree under test (default /repo).',
    not_applicable=na,
)
json.dump(man, open(os.path.join(HERE, 'MANIFEST.json'), 'w'), indent=1)
print('checks', [c['property_id'] for c in checks], 'na', len(na))
