#!/bin/sh
# usage: confirm_modules.sh <name> "<pytest paths>" <seed dirs...> : apply the patches that apply together, run the given paths serially (NP=0), compare with baseline
N="$1"; P="$2"; shift 2
W=/tmp/wt/batch_$N
git -C /repo worktree remove --force $W >/dev/null 2>&1
git -C /repo worktree add -q --detach $W HEAD || exit 9
cd $W
for d in "$@"; do git apply --check "$d/patch.diff" 2>/dev/null && git apply "$d/patch.diff" && echo "applied $d"; done | wc -l
NP=${NP:-0} /verif/tools/basecmp.py $W $P; echo "tests rc: $?"
cd /; git -C /repo worktree remove --force $W
