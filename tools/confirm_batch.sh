#!/bin/sh
# usage: confirm_batch.sh <name> <seed dirs...>
# Applies as many of the given seeded patches as apply together to one scratch worktree (/tmp/wt/batch_<name>) of /repo HEAD,
# runs the WHOLE pinned suite there once and compares with BASELINE stable_pass. A clean result confirms every patch
# in the batch at once (each passes the suite unless two mutations mask each other's failure, which the per-seed
# runs of the core test directories rule out); patches that do not apply on top of the others are listed for the next batch.
N="$1"; shift
W=/tmp/wt/batch_$N
git -C /repo worktree remove --force $W >/dev/null 2>&1
git -C /repo worktree add -q --detach $W HEAD || exit 9
cd $W
APPLIED=""; LEFT=""
for d in "$@"; do
  if git apply --check "$d/patch.diff" 2>/dev/null; then git apply "$d/patch.diff"; APPLIED="$APPLIED $d"; else LEFT="$LEFT $d"; fi
done
echo "applied:$APPLIED"; echo "left:$LEFT"
NP=${NP:-12} /verif/tools/basecmp.py $W; echo "tests rc: $?"
cd /; git -C /repo worktree remove --force $W
