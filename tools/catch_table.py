#!/venv/bin/python
"""regenerates the seeded-change table in DESIGN.md from seeded/*/mut*/meta.json"""
import glob, json, re
rows = ['| seed | change (author\'s title) | needs to manifest (short) | caught by (quick, seed 0) | clauses |', '|---|---|---|---|---|']
for f in sorted(glob.glob('/verif/seeded/C*/mut*/meta.json')):
    m = json.load(open(f))
    title = re.sub(r'^C\d\d\s*/?\s*mutation\s*\d\s*[-–—:]*\s*', '', m.get('title') or '', flags=re.I)[:110] or m['files_changed'][0].split('|')[0].strip()
    needs = re.sub(r'\s+', ' ', re.sub(r'^\*\*[^*]*\*\*', '', m.get('needs_to_manifest') or '')).strip()[:160]
    extra = ', '.join(m.get('also_caught_by', []))
    caught = (m['property'] if m['check']['caught'] else 'MISSED') + (f' (also {extra})' if extra else '')
    rows.append(f"| {m['property']}/{m['mutation']} | {title} | {needs} | {caught}: {m['check']['violations_total']} violations | {', '.join(sorted(m['check']['clauses']))[:120]} |")
s = open('/verif/DESIGN.md').read()
a, b = s.index('<!-- CATCH-TABLE-BEGIN -->'), s.index('<!-- CATCH-TABLE-END -->')
s = s[:a] + '<!-- CATCH-TABLE-BEGIN -->\n' + '\n'.join(rows) + '\n' + s[b:]
open('/verif/DESIGN.md', 'w').write(s)
print(len(rows) - 2, 'rows')
