#!/venv/bin/python
"""usage: basecmp.py <repo_tree> <pytest paths...> : runs pytest (xdist) on the paths and reports every test that is
in BASELINE stable_pass (restricted to the modules run) but did not pass."""
import json, subprocess, sys, os, tempfile, xml.etree.ElementTree as ET
tree = sys.argv[1]; paths = sys.argv[2:]
base = set(json.load(open('/root/.vp/BASELINE.json'))['stable_pass'])
xmlf = tempfile.mktemp(suffix='.xml')
env = dict(os.environ, PYTHONPATH=tree)
subprocess.run(['/venv/bin/python', '-m', 'pytest', '-q', '-p', 'no:cacheprovider', '--timeout=900', '-n', os.environ.get('NP', '14'), '--continue-on-collection-errors', f'--junitxml={xmlf}'] + paths, cwd=tree, env=env, stdout=subprocess.DEVNULL, stderr=subprocess.DEVNULL)
passed = set(); seen_mod = set(); allr = {}
for tc in ET.parse(xmlf).getroot().iter('testcase'):
    name = f"{tc.get('classname')}::{tc.get('name')}"
    ok = not any(ch.tag in ('failure', 'error', 'skipped') for ch in tc)
    allr[name] = ok; seen_mod.add(tc.get('classname'))
    if ok: passed.add(name)
os.remove(xmlf)
want = {b for b in base if b.split('::')[0] in seen_mod}
missing = sorted(want - passed)
print(f'ran {len(allr)} tests in {len(seen_mod)} modules; baseline stable_pass there: {len(want)}; not passing now: {len(missing)}')
for m in missing[:40]: print('  REGRESSION', m)
sys.exit(1 if missing else 0)
