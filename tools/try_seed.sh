#!/bin/sh
# usage: try_seed.sh <seed dir with patch.diff, demo.py> <property> [tier] [seed]
# applies the patch in a scratch worktree of /repo's HEAD (never /repo itself, so concurrently running checks are not
# disturbed), runs the demo (must fail), runs the check against the worktree (must exit 1) with evidence/replays sent
# to a scratch directory, removes both.
D="$(cd "$1" && pwd)"; P="$2"; T="${3:-quick}"; S="${4:-0}"
W=/tmp/wt/try_$$; O=/tmp/wt/out_$$
git -C /repo worktree add --detach -f "$W" HEAD >/dev/null 2>&1 || { echo "worktree failed"; exit 9; }
trap 'git -C /repo worktree remove --force "$W" >/dev/null 2>&1; rm -rf "$O"' EXIT
cd "$W" || exit 9
git apply --check "$D/patch.diff" || { echo "PATCH DOES NOT APPLY"; exit 8; }
git apply "$D/patch.diff"
if [ -z "$NODEMO" ]; then PYTHONPATH="$W" timeout 600 /venv/bin/python "$D/demo.py" >/dev/null 2>&1; echo "demo exit on mutant: $?"; fi
mkdir -p "$O"
cd /verif && VERIF_OUT="$O" VERIF_REPO="$W" ./check "$P" --tier "$T" --seed "$S" > "$O/check.out" 2>&1; RC=$?
grep -c VIOLATION "$O/check.out" | sed 's/^/violation lines: /'
grep VIOLATION "$O/check.out" | sed 's/replay=[^ ]* //' | head -${NV:-3} | cut -c1-400; tail -1 "$O/check.out" | cut -c1-300
echo "check exit: $RC"
