#!/bin/sh
# usage: try_seed.sh <seed dir with patch.diff, demo.py> <property> [tier]
# applies the patch to /repo, runs the demo (must fail), runs the check (must exit 1), undoes the patch.
D="$1"; P="$2"; T="${3:-quick}"
cd /repo || exit 9
if [ -n "$(git status --porcelain)" ]; then echo "repo dirty"; exit 9; fi
git apply --check "$D/patch.diff" || { echo "PATCH DOES NOT APPLY"; exit 8; }
git apply "$D/patch.diff"
PYTHONPATH=/repo timeout 600 /venv/bin/python "$D/demo.py" >/tmp/seed_demo.out 2>&1; echo "demo exit on mutant: $?"
cd /verif && ./check "$P" --tier "$T" > /tmp/seed_check.out 2>&1; RC=$?
grep -c VIOLATION /tmp/seed_check.out | sed 's/^/violation lines: /'; grep VIOLATION /tmp/seed_check.out | head -3 | cut -c1-400; tail -1 /tmp/seed_check.out | cut -c1-300
cd /repo && git checkout -- . && git status --porcelain | head -3
echo "check exit: $RC"
