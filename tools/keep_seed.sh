#!/bin/sh
# usage: keep_seed.sh <src dir (patch.diff demo.py notes.md)> <dest name e.g. C05/mut1>
S="$1"; D="/verif/seeded/$2"; mkdir -p "$D"; cp "$S/patch.diff" "$S/demo.py" "$D/"; [ -f "$S/notes.md" ] && cp "$S/notes.md" "$D/notes.md"; ls "$D"
