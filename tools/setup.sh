#!/bin/sh
# Offline setup: nothing to build (pure Python, uses /venv which already holds pySDC's dependencies incl. mpmath, qmat).
set -e
cd "$(dirname "$0")/.."
/venv/bin/python -c "import numpy, scipy, mpmath, qmat, dill; import sys; sys.path.insert(0,'.'); import vf.core; print('vf setup ok')"
mkdir -p evidence replays
