#!/bin/sh
# usage: confirm_seed.sh <seeded dir> <pytest paths...> : in the scratch worktree /tmp/wt/confirm (repo HEAD):
# demo passes clean, fails with patch; baseline-stable tests in the given paths still pass with the patch.
D="$1"; shift
W=/tmp/wt/confirm
[ -d $W ] || git -C /repo worktree add -q --detach $W HEAD
git -C $W checkout -q --detach $(git -C /repo rev-parse HEAD) && git -C $W checkout -q -- .
cd $W
PYTHONPATH=$W timeout 900 /venv/bin/python "$D/demo.py" >/dev/null 2>&1; echo "demo clean: $?"
git apply "$D/patch.diff" || { echo "patch does not apply"; exit 8; }
PYTHONPATH=$W timeout 900 /venv/bin/python "$D/demo.py" >/dev/null 2>&1; echo "demo mutant: $?"
/verif/tools/basecmp.py $W "$@"; echo "tests rc: $?"
git checkout -q -- .
