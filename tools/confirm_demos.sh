#!/bin/sh
# for every seeded mutation: demo exit code on clean HEAD and on the mutated tree (scratch worktree /tmp/wt/confirm)
W=/tmp/wt/confirm
[ -d $W ] || git -C /repo worktree add -q --detach $W HEAD
git -C $W checkout -q --detach $(git -C /repo rev-parse HEAD) && git -C $W checkout -q -- .
cd $W
for d in /verif/seeded/C*/mut*; do
  [ -n "$1" ] && case "$d" in *$1*) ;; *) continue;; esac
  PYTHONPATH=$W timeout 900 /venv/bin/python "$d/demo.py" >/dev/null 2>&1; a=$?
  git apply "$d/patch.diff" || { echo "$d patch does not apply"; continue; }
  PYTHONPATH=$W timeout 900 /venv/bin/python "$d/demo.py" >/dev/null 2>&1; b=$?
  git checkout -q -- .
  echo "$d demo_clean=$a demo_mutant=$b" | tee "$d/demo_result.txt"
done
