import json,sys
pid=sys.argv[1]
for l in open('/verif/properties.jsonl'):
    d=json.loads(l)
    if d['id']==pid: break
a=d['anchors']
print(f"""You are helping to evaluate a verification effort for the open-source Python library pySDC (spectral deferred correction time integrators). Your job: craft realistic *seeded defects* (mutations) of pySDC that break one stated semantic property while the code still imports and the existing test-suite still passes.

Work ONLY in your own scratch git worktree of the repository: /tmp/wt/{pid}  (a detached checkout; interpreter: /venv/bin/python; run things with `cd /tmp/wt/{pid} && PYTHONPATH=/tmp/wt/{pid} /venv/bin/python ...` so that YOUR copy of pySDC is imported -- verify with `python -c "import pySDC; print(pySDC.__file__)"`). Do NOT read, list or touch /verif or /repo, and do not look under /root. There is no network. The machine is shared: export OMP_NUM_THREADS=1 OPENBLAS_NUM_THREADS=1 and never use more than 4 pytest workers (-n 4).

THE PROPERTY ({pid}: {d['title']})
Statement: {d['statement']}
Quantified over: {d['quantifier']['text']}
Why the existing tests cannot settle it: {d['why_tests_cant']}
Code it is anchored in: files {a['files']}; mechanisms: {[m['name']+' @ '+m['where'] for m in a['mechanism']]}; observable at: {a['observe_at']}

WHAT TO PRODUCE: TWO different mutations (different mechanisms / different code sites), each a small source change to pySDC (a few lines) such that
 (1) the package still imports and the existing tests still pass (at minimum run the test files that exercise the files you touched, e.g. `cd /tmp/wt/{pid} && PYTHONPATH=/tmp/wt/{pid} /venv/bin/python -m pytest -q -p no:cacheprovider -x -n 4 pySDC/tests/<relevant files>`; the tests live in pySDC/tests and pySDC/projects/*/tests; choose generously which are relevant; tests requiring mpi4py/petsc/fenics/cupy are skipped/erroring already on the unchanged tree, ignore those);
 (2) the property above is genuinely violated by the changed code;
 (3) the violation needs something SPECIFIC to manifest: an unusual input or configuration (not the defaults used in tutorials/tests), a multi-step sequence of operations, a particular interleaving/fault/crash point, or two cooperating sites that each look fine alone. Do NOT produce a change that ordinary use or the default configuration exposes at once. Prefer realistic slips a maintainer could make in a refactor (off-by-one in a rarely used branch, wrong index for a non-default option, stale cache, wrong sign for a special case, condition slightly too narrow/wide).
 (4) a demonstration: a small self-contained script demo.py that exits 0 on the unchanged code and exits non-zero (assertion failure) on the mutated code, when run as `PYTHONPATH=<tree> /venv/bin/python demo.py`.

For each mutation k in (1,2) write into /tmp/seed/{pid}/mut<k>/ :
  patch.diff   -- `git diff` of the mutation against the unchanged worktree (must apply with `git apply` at the repository root)
  demo.py      -- the demonstration
  notes.md     -- which clause of the property it breaks, what it needs in order to manifest, which tests you ran and their result
After saving mutation 1, restore the worktree (`git -C /tmp/wt/{pid} checkout -- .`) before making mutation 2, and restore again at the end. Confirm for each: demo passes on clean tree, fails with patch; relevant tests pass with patch. Keep total effort reasonable (aim to finish within ~40 minutes). Final answer: a short summary of the two mutations (files, mechanism, trigger) and the test commands you ran.""")
