#!/bin/sh
# confirm every seeded mutation: demo clean/mutant + core tests + tutorials + project tests touching core; writes seeded/<id>/<mut>/confirm.txt
CORE="pySDC/tests/tests_core.py pySDC/tests/test_collocation.py pySDC/tests/test_Q_transfer.py pySDC/tests/test_problem.py pySDC/tests/test_2d_fd_accuracy.py pySDC/tests/test_controllers pySDC/tests/test_convergence_controllers pySDC/tests/test_datatypes pySDC/tests/test_helpers pySDC/tests/test_hooks pySDC/tests/test_sweepers pySDC/tests/test_transfer_classes pySDC/tests/test_tutorials pySDC/tests/test_problems pySDC/projects/DAE/tests pySDC/projects/Resilience/tests pySDC/projects/parallelSDC_reloaded/tests pySDC/projects/AsympConv/tests pySDC/projects/matrixPFASST/tests pySDC/projects/RDC/tests"
for d in /verif/seeded/C*/mut*; do
  [ -n "$1" ] && case "$d" in *$1*) ;; *) continue;; esac
  [ -f "$d/confirm.txt" ] && [ -z "$FORCE" ] && continue
  /verif/tools/confirm_seed.sh "$d" $CORE > "$d/confirm.txt" 2>&1
  echo "$d: $(grep -c REGRESSION $d/confirm.txt) regressions; $(grep 'demo' $d/confirm.txt | tr '\n' ' ')"
done
