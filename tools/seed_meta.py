#!/venv/bin/python
"""usage: seed_meta.py [filter] : (re)writes seeded/<Cxx>/mutN/meta.json for every kept mutation.
For each: scratch worktree of /repo HEAD under /tmp/wt, demo on the clean tree, patch, demo on the mutant, the property's
quick check against the mutant (VERIF_REPO=<worktree>, output to a scratch dir), core test directories compared with the baseline.
Fields taken from the author's notes.md: title and the 'needs to manifest' section. 'suite' is filled in by confirm_batch results
(tools/seed_suite.json) when present."""
import glob, json, os, re, subprocess, sys, shutil, time

V = '/verif'
flt = sys.argv[1] if len(sys.argv) > 1 else ''
CORE = ('pySDC/tests/tests_core.py pySDC/tests/test_collocation.py pySDC/tests/test_Q_transfer.py pySDC/tests/test_problem.py pySDC/tests/test_2d_fd_accuracy.py '
        'pySDC/tests/test_controllers pySDC/tests/test_convergence_controllers pySDC/tests/test_datatypes pySDC/tests/test_helpers pySDC/tests/test_hooks '
        'pySDC/tests/test_sweepers pySDC/tests/test_transfer_classes').split()
suite = json.load(open(f'{V}/tools/seed_suite.json')) if os.path.exists(f'{V}/tools/seed_suite.json') else {}
head = subprocess.check_output(['git', '-C', '/repo', 'rev-parse', '--short', 'HEAD'], text=True).strip()


def sh(cmd, **kw):
    return subprocess.run(cmd, shell=True, text=True, capture_output=True, **kw)


def section(notes, pat):
    m = re.search(pat, notes, re.I)
    if not m:
        return None
    rest = notes[m.end():]
    stop = re.search(r'\n(\*\*[A-Z][^\n]{0,60}:\*\*|#+ )', rest)
    return (notes[m.start():m.end()] + (rest[: stop.start()] if stop else rest)).strip()[:2500]


shard = os.environ.get('SHARD')  # 'i/n': process every n-th seed starting at i (run several instances side by side)
for idx, d in enumerate(sorted(glob.glob(f'{V}/seeded/C*/mut*'))):
    if flt and flt not in d:
        continue
    if shard and idx % int(shard.split('/')[1]) != int(shard.split('/')[0]):
        continue
    if os.environ.get('SKIP_DONE') and os.path.exists(f'{d}/meta.json'):
        continue
    prop, mut = d.split('/')[-2:]
    W, O = f'/tmp/wt/meta_{prop}_{mut}', f'/tmp/wt/metaout_{prop}_{mut}'
    sh(f'git -C /repo worktree remove --force {W}; rm -rf {O}; mkdir -p {O}')
    assert sh(f'git -C /repo worktree add --detach -f {W} HEAD').returncode == 0
    try:
        env = dict(os.environ, PYTHONPATH=W)
        a = subprocess.run(['/venv/bin/python', f'{d}/demo.py'], cwd=W, env=env, capture_output=True, text=True, timeout=900)
        ap = sh(f'git apply {d}/patch.diff', cwd=W)
        assert ap.returncode == 0, ap.stderr
        files = sh('git diff --stat | cat', cwd=W).stdout.strip().splitlines()
        b = subprocess.run(['/venv/bin/python', f'{d}/demo.py'], cwd=W, env=env, capture_output=True, text=True, timeout=900)
        t0 = time.time()
        c = sh(f'cd {V} && VERIF_OUT={O} VERIF_REPO={W} ./check {prop} --tier quick --seed 0')
        viol = [ln for ln in c.stdout.splitlines() if ln.startswith('VIOLATION')]
        clauses = {}
        for ln in viol:
            m = re.search(r'clause=(\S+)', ln)
            clauses.setdefault(m.group(1) if m else '?', re.sub(r'replay=\S+ ', '', ln)[:400])
        more = re.findall(r'(\d+) more violation\(s\) of clause (\S+)', c.stdout)
        tests = sh(f'NP={os.environ.get("NP", "10")} {V}/tools/basecmp.py {W} ' + ' '.join(CORE))
        notes = open(f'{d}/notes.md').read() if os.path.exists(f'{d}/notes.md') else ''
        title = (notes.strip().splitlines() or [''])[0].lstrip('# ').strip()
        meta = dict(
            property=prop,
            mutation=mut,
            title=title,
            author='fresh sub-agent given only the property text and a scratch worktree' if os.path.exists(f'{d}/notes.md') else 'verifier-crafted (no MPI runtime in the sandbox for a sub-agent to demonstrate against); demo runs on the simulated mpi4py',
            files_changed=files,
            needs_to_manifest=section(notes, r'(\*\*|#+ )\s*(what it needs|needs|needed|trigger|requires)[^\n]*') or (open(f'{d}/needs.txt').read().strip() if os.path.exists(f'{d}/needs.txt') else None),
            confirmed=dict(
                repo_head=head,
                how='scratch git worktree of /repo HEAD under /tmp/wt (removed afterwards); patch applied with git apply',
                demo_exit_clean=a.returncode,
                demo_exit_mutant=b.returncode,
                demo_failure=(b.stdout + b.stderr).strip().splitlines()[-1][:400] if (b.stdout + b.stderr).strip() else '',
                core_tests=tests.stdout.strip().splitlines()[0] if tests.stdout.strip() else tests.stderr[-300:],
                core_tests_regressions=[ln.strip() for ln in tests.stdout.splitlines() if 'REGRESSION' in ln],
                core_test_paths=CORE,
                whole_suite=suite.get(f'{prop}/{mut}'),
            ),
            check=dict(
                command=f'VERIF_REPO=<mutated tree> ./check {prop} --tier quick --seed 0',
                exit=c.returncode,
                caught=c.returncode == 1 and bool(viol),
                clauses={k: v for k, v in clauses.items()},
                violations_total=len(viol) + sum(int(n) for n, _ in more),
                summary=c.stdout.strip().splitlines()[-1][:300] if c.stdout.strip() else c.stderr[-300:],
                wall_s=round(time.time() - t0, 1),
            ),
        )
        json.dump(meta, open(f'{d}/meta.json', 'w'), indent=1)
        print(prop, mut, 'demo', a.returncode, b.returncode, 'check', c.returncode, sorted(clauses), '|', meta['confirmed']['core_tests'], flush=True)
    finally:
        sh(f'git -C /repo worktree remove --force {W}; rm -rf {O}')
