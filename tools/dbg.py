"""in-process debugging: run all cases of a check, aggregate violations by clause and a key prefix"""
import sys, collections, importlib, warnings, logging, traceback
warnings.filterwarnings('ignore'); logging.disable(logging.CRITICAL)
sys.path.insert(0, '/verif')
prop, tier = sys.argv[1], sys.argv[2]
seed = int(sys.argv[3]) if len(sys.argv) > 3 else 0
depth = int(sys.argv[4]) if len(sys.argv) > 4 else 2
limit = int(sys.argv[5]) if len(sys.argv) > 5 else 10**9
mod = importlib.import_module(f'vf.checks.{prop}')
agg = collections.Counter(); ex = {}
for c in mod.cases(tier, seed)[:limit]:
    try:
        r = mod.run_case(c)
    except Exception as e:
        k = ('EXC', type(e).__name__, str(e)[:80]); agg[k] += 1; ex.setdefault(k, traceback.format_exc()[-700:]); continue
    for v in r.violations:
        k = (v['clause'], v['mech'], '/'.join(str(r.key).split('/')[:depth]))
        agg[k] += 1; ex.setdefault(k, v['msg'][:300])
    for i in r.inconclusive:
        k=('INCON', i[:100]); agg[k]+=1
for k, v in sorted(agg.items(), key=str):
    print(v, k, '\n     ', ex.get(k, ''))
