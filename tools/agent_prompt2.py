import json, sys, glob, os, re, subprocess
pid = sys.argv[1]
base = subprocess.check_output(['/venv/bin/python', '/verif/tools/agent_prompt.py', pid], text=True)
used = []
for d in sorted(glob.glob(f'/verif/seeded/{pid}/mut*')):
    n = os.path.join(d, 'notes.md')
    if os.path.exists(n):
        t = open(n).read().strip().splitlines()[0].lstrip('# ').strip()
    else:
        t = open(os.path.join(d, 'needs.txt')).read().strip()[:200]
    files = sorted({ln[6:].strip() for ln in open(os.path.join(d, 'patch.diff')) if ln.startswith('+++ b/')})
    used.append(f'  - {t}  [{", ".join(files)}]')
OUT = os.environ.get('SEED_OUT', '/tmp/seed2')
base = base.replace(f'/tmp/seed/{pid}/mut<k>/', f'{OUT}/{pid}/mut<k>/')
extra = ('\n\nFURTHER ROUND. Colleagues already produced the following mutations for this property; do NOT repeat these ideas or close variants, and prefer other code sites, other classes named in the anchors, and other clauses of the property statement (read the statement again: every sentence is a separate promise):\n'
         + '\n'.join(used) +
         '\nAim for changes that are subtle in a different way: e.g. only wrong for a particular combination of two options, only on the second use of an object, only for a rarely used subclass / data type / boundary case, only when an optional feature is switched on. The change must still be a genuine violation of the stated property, not merely of some other expectation.\n')
print(base + extra)
