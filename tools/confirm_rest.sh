#!/bin/sh
# usage: confirm_rest.sh <name> <seed dirs...> : the part of the pinned suite that tools/seed_meta.py does not run per seed
# (test_problems, test_benchmarks, test_tutorials, all projects: 941 of the 3510 baseline tests) on one scratch worktree with
# every given patch that applies together; compares with BASELINE stable_pass.
N="$1"; shift
W=/tmp/wt/batch_$N
git -C /repo worktree remove --force $W >/dev/null 2>&1
git -C /repo worktree add -q --detach $W HEAD || exit 9
cd $W
APPLIED=""; LEFT=""
for d in "$@"; do
  if git apply --check "$d/patch.diff" 2>/dev/null; then git apply "$d/patch.diff"; APPLIED="$APPLIED $d"; else LEFT="$LEFT $d"; fi
done
echo "applied:$APPLIED"; echo "left:$LEFT"
NP=${NP:-8} /verif/tools/basecmp.py $W pySDC/tests/test_problems pySDC/tests/test_benchmarks pySDC/tests/test_tutorials pySDC/projects; echo "tests rc: $?"
cd /; git -C /repo worktree remove --force $W
