import sys
from vf.core import worker_main

if __name__ == '__main__':
    worker_main(sys.argv[1:])
