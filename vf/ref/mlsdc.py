"""Matrix form of one multilevel SDC iteration (down - coarse - up - fine) for linear problems, single step.

State per level: U (M,n) node values, F (M,n) right-hand sides at the nodes *as the level stores them*, u0, f0, tau.
Operators per level l: A_l (implicit piece), B_l (explicit piece or 0), G_l (M,n) forcing at the nodes, Q_l, QI_l, QE_l, dt.
Transfers between l and l+1: Rs/Ps (space matrices), Rc/Pc (node matrices).
"""

import numpy as np


def lagrange_matrix(x_to, x_from):
    """interpolation matrix from values on x_from to x_to (barycentric-free, small sizes)"""
    x_to, x_from = np.asarray(x_to, dtype=float), np.asarray(x_from, dtype=float)
    P = np.zeros((len(x_to), len(x_from)))
    for j in range(len(x_from)):
        others = np.delete(x_from, j)
        denom = np.prod(x_from[j] - others) if len(others) else 1.0
        for i in range(len(x_to)):
            P[i, j] = (np.prod(x_to[i] - others) if len(others) else 1.0) / denom
    return P


class Lvl:
    def __init__(self, Q, QI, QE, A, B, G, dt, imex):
        self.Q, self.QI, self.QE, self.A, self.B, self.G, self.dt, self.imex = Q, QI, QE, A, B, G, dt, imex
        self.U = self.F_I = self.F_E = self.u0 = self.tau = None

    def evalF(self, U):
        FI = (self.A @ U.T).T
        FE = (self.B @ U.T).T + self.G
        if not self.imex:
            return FI + FE, np.zeros_like(FI)
        return FI, FE

    def integrate(self):
        return self.dt * (self.Q @ (self.F_I + self.F_E))

    def sweep(self):
        """one sweep using the stored right-hand sides F_I/F_E (which may have been interpolated rather than evaluated)"""
        M, n = self.U.shape
        Q, QI, QE, dt = self.Q, self.QI, self.QE, self.dt
        rhs = np.tile(self.u0, (M, 1)) + dt * ((Q - QI) @ self.F_I) + dt * ((Q - QE) @ self.F_E) if self.imex else np.tile(self.u0, (M, 1)) + dt * ((Q - QI) @ (self.F_I + self.F_E))
        if self.tau is not None:
            rhs = rhs + self.tau
        if self.imex:
            lhs = np.eye(M * n) - dt * np.kron(QI, self.A) - dt * np.kron(QE, self.B)
            rhs = rhs + dt * (QE @ self.G)
        else:
            lhs = np.eye(M * n) - dt * np.kron(QI, self.A + self.B)
            rhs = rhs + dt * (QI @ self.G)
        self.U = np.linalg.solve(lhs, rhs.reshape(-1)).reshape(M, n)
        self.F_I, self.F_E = self.evalF(self.U)

    def defect(self):
        r = self.u0[None, :] + self.integrate() - self.U
        if self.tau is not None:
            r = r + self.tau
        return r


def restrict(F, G, Rs, Rc):
    G.u0 = Rs @ F.u0
    G.U = Rc @ (F.U @ Rs.T)
    G.F_I, G.F_E = G.evalF(G.U)
    tauF = F.integrate()
    G.tau = Rc @ (tauF @ Rs.T) - G.integrate()
    if F.tau is not None:
        G.tau = G.tau + Rc @ (F.tau @ Rs.T)
    G.Uold, G.FIold, G.FEold = G.U.copy(), G.F_I.copy(), G.F_E.copy()


def prolong(F, G, Ps, Pc, finter):
    F.U = F.U + Pc @ ((G.U - G.Uold) @ Ps.T)
    if finter:
        F.F_I = F.F_I + Pc @ ((G.F_I - G.FIold) @ Ps.T)
        F.F_E = F.F_E + Pc @ ((G.F_E - G.FEold) @ Ps.T)
    else:
        F.F_I, F.F_E = F.evalF(F.U)


def iteration(levels, transfers, nsweeps, finter):
    """levels[0] loaded (U, F_I, F_E, u0, tau=None); transfers[l] = (Rs, Ps, Rc, Pc) between l and l+1"""
    L = len(levels)
    restrict(levels[0], levels[1], transfers[0][0], transfers[0][2])
    for l in range(1, L - 1):
        for _ in range(nsweeps[l]):
            levels[l].sweep()
        restrict(levels[l], levels[l + 1], transfers[l][0], transfers[l][2])
    levels[-1].sweep()
    for l in range(L - 1, 0, -1):
        prolong(levels[l - 1], levels[l], transfers[l - 1][1], transfers[l - 1][3], finter)
        if l - 1 > 0:
            for _ in range(nsweeps[l - 1]):
                levels[l - 1].sweep()
    for _ in range(nsweeps[0]):
        levels[0].sweep()
    return levels[0].U
