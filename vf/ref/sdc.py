"""Executable reference models for collocation / SDC sweeps on linear problems.

Everything is dense linear algebra on (M*n)-vectors; coefficients come from qmat directly
(never from the pySDC object under test).  f(u,t) = A u (+ B u) + g(t).
"""

import numpy as np
from qmat import Q_GENERATORS
from qmat.qdelta import QDELTA_GENERATORS


def coll(M, node_type='LEGENDRE', quad_type='RADAU-RIGHT'):
    g = Q_GENERATORS['Collocation'](nNodes=M, nodeType=node_type, quadType=quad_type, tLeft=0, tRight=1)
    return g


def qdelta(gen, name, k=None):
    """implicit-type QDelta (M x M) from qmat."""
    return np.array(QDELTA_GENERATORS[name](qGen=gen, tLeft=0).genCoeffs(k=k), dtype=float)


def qdelta_explicit(gen, name, k=None):
    """explicit-type QDelta (M x M) and first-node column dTau (M)."""
    c, d = QDELTA_GENERATORS[name](qGen=gen, tLeft=0).genCoeffs(k=k, dTau=True)
    return np.array(c, dtype=float), np.array(d, dtype=float)


def kdependent(gen, name):
    return bool(QDELTA_GENERATORS[name](qGen=gen, tLeft=0).isKDependent())


def G_nodes(gfun, t0, dt, nodes, n, dtype=float):
    return np.array([np.asarray(gfun(t0 + dt * c), dtype=dtype) * np.ones(n, dtype=dtype) for c in nodes])


def sweep_implicit(Q, QD, A, dt, u0, Uold, G, tau=None):
    """(I - dt QD x A) U+ = 1 x u0 + dt ((Q-QD) x A) U + dt Q G + tau ;  U, G, tau: (M, n)"""
    M, n = Uold.shape
    I = np.eye(M * n)
    rhs = np.tile(u0, M) + dt * np.kron(Q - QD, A) @ Uold.reshape(-1) + dt * (Q @ G).reshape(-1)
    if tau is not None:
        rhs = rhs + tau.reshape(-1)
    return np.linalg.solve(I - dt * np.kron(QD, A), rhs).reshape(M, n)


def sweep_imex(Q, QI, QE, A, B, dt, u0, Uold, G, tau=None):
    M, n = Uold.shape
    I = np.eye(M * n)
    rhs = np.tile(u0, M) + dt * (np.kron(Q - QI, A) + np.kron(Q - QE, B)) @ Uold.reshape(-1) + dt * (Q @ G).reshape(-1)
    if tau is not None:
        rhs = rhs + tau.reshape(-1)
    return np.linalg.solve(I - dt * np.kron(QI, A) - dt * np.kron(QE, B), rhs).reshape(M, n)


def sweep_multi_implicit(Q, Q1, Q2, A, B, dt, u0, Uold, G, tau=None):
    """two successive solves per node (first component carries the forcing)."""
    M, n = Uold.shape
    F1o = (A @ Uold.T).T + G
    F2o = (B @ Uold.T).T
    new = np.zeros_like(Uold)
    F1n = np.zeros_like(Uold)
    F2n = np.zeros_like(Uold)
    In = np.eye(n)
    for m in range(M):
        r = u0 + dt * (Q[m] @ (F1o + F2o)) - dt * (Q1[m] @ F1o)
        if tau is not None:
            r = r + tau[m]
        r = r + dt * sum(Q1[m, j] * F1n[j] for j in range(m))
        # (I - a A) v = r + a g_m
        a = dt * Q1[m, m]
        v = np.linalg.solve(In - a * A, r + a * G[m])
        r2 = v - dt * (Q2[m] @ F2o) + dt * sum(Q2[m, j] * F2n[j] for j in range(m))
        a2 = dt * Q2[m, m]
        new[m] = np.linalg.solve(In - a2 * B, r2)
        F1n[m] = A @ new[m] + G[m]
        F2n[m] = B @ new[m]
    return new


def sweep_imex_mass(Q, QI, QE, dE0, A, B, Mm, dt, u0, Uold, G, g0, tau=None, fine=True):
    """imex_1st_order_mass: Mm U+ = Mm u0 + dt[(Q-QI) A U + (Q-QE)(B U + G)] - dt*dE0*(fE0_old) ... documented form:
    the explicit first-node column dE0 multiplies f_expl(u0) both in the subtracted old and in the added new part,
    hence cancels; what remains is the IMEX block system with the mass matrix on the left."""
    M, n = Uold.shape
    lhs = np.kron(np.eye(M), Mm) - dt * np.kron(QI, A) - dt * np.kron(QE, B)
    base = np.tile(Mm @ u0 if fine else u0, M)
    rhs = base + dt * (np.kron(Q - QI, A) + np.kron(Q - QE, B)) @ Uold.reshape(-1) + dt * (Q @ G).reshape(-1)
    if tau is not None:
        rhs = rhs + tau.reshape(-1)
    return np.linalg.solve(lhs, rhs).reshape(M, n)


def integrate(Q, dt, F):
    """dt * Q * F(U) ; F: (M, n)"""
    return dt * (Q @ F)


def end_point(u0, dt, w, F, tau_last=None):
    out = u0 + dt * (w @ F)
    if tau_last is not None:
        out = out + tau_last
    return out


def collocation_solve(Q, A, dt, u0, G, Mm=None):
    """(I - dt Q x A) U = 1 x u0 + dt Q G ;  returns U (M,n) and the inf-norm of the inverse"""
    M = Q.shape[0]
    n = len(u0)
    if Mm is None:
        lhs = np.eye(M * n) - dt * np.kron(Q, A)
        rhs = np.tile(u0, M) + dt * (Q @ G).reshape(-1)
    else:
        lhs = np.kron(np.eye(M), Mm) - dt * np.kron(Q, A)
        rhs = np.tile(Mm @ u0, M) + dt * (Q @ G).reshape(-1)
    inv = np.linalg.inv(lhs)
    U = (inv @ rhs).reshape(M, n)
    return U, float(np.linalg.norm(inv, np.inf))


def defect(Q, dt, u0, U, F, tau=None):
    """u0 + dt Q F(U) + tau - U, per node (M, n)"""
    r = u0[None, :] + dt * (Q @ F) - U
    if tau is not None:
        r = r + tau
    return r


def residual_norm(r, u0, rtype):
    nr = [float(np.max(np.abs(x))) if x.size else 0.0 for x in r]
    n0 = float(np.max(np.abs(u0)))
    if rtype == 'full_abs':
        return max(nr)
    if rtype == 'last_abs':
        return nr[-1]
    if rtype == 'full_rel':
        return max(nr) / n0
    if rtype == 'last_rel':
        return nr[-1] / n0
    raise ValueError(rtype)


def iteration_matrix_radius(Q, QD, A, dt):
    """spectral radius of the single-level sweep error propagation (I-dt QD x A)^-1 dt (Q-QD) x A"""
    M = Q.shape[0]
    n = A.shape[0]
    K = np.linalg.solve(np.eye(M * n) - dt * np.kron(QD, A), dt * np.kron(Q - QD, A))
    return float(np.max(np.abs(np.linalg.eigvals(K))))
