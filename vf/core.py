"""Shared machinery: case sharding over worker subprocesses, verdicts, evidence, replay.

A check module (vf/checks/Cxx.py) provides

    PROPERTY, LEVEL, RULE, ASSUMPTIONS, TECHNIQUE
    cases(tier, seed)      -> list of JSON-serialisable dicts (one per execution)
    run_case(case)         -> dict(result) built with vf.core.Result
    finalize(agg)          -> optional; may add inconclusive reasons from aggregated counters

Everything that touches the system under test runs inside worker subprocesses
(`python -m vf.worker Cxx shard.json`), never in the parent.
"""

import hashlib
import importlib
import json
import os
import subprocess
import sys
import tempfile
import time
import traceback

VERIF = os.path.dirname(os.path.dirname(os.path.abspath(__file__)))
# evidence/ and replays/ go to VERIF unless a scratch output directory is named (used when judging seeded mutants)
OUT = os.environ.get('VERIF_OUT') or VERIF
REPO = os.path.realpath(os.environ.get('VERIF_REPO', '/repo'))
PY = os.environ.get('VERIF_PYTHON', '/venv/bin/python')
NPROC = int(os.environ.get('VERIF_NPROC', '16'))


def stable_hash(obj, n=12):
    return hashlib.blake2b(json.dumps(obj, sort_keys=True, default=repr).encode(), digest_size=16).hexdigest()[:n]


def digest(arr):
    """blake2 digest of the raw bytes of an array-like (bit identity)."""
    import numpy as np

    a = np.ascontiguousarray(np.asarray(arr))
    return hashlib.blake2b(a.tobytes() + str(a.dtype).encode() + str(a.shape).encode(), digest_size=12).hexdigest()


class Result:
    """Per-case result built by run_case."""

    def __init__(self, case):
        self.case = case
        self.violations = []  # list of dict(clause, msg, mech, detail)
        self.inconclusive = []  # list of reasons
        self.counters = {}
        self.nontrivial = False
        self.key = None  # distinctness key (default: hash of the case)
        self.sample = None
        self.seen = {}  # name -> set-like list of small hashable things observed

    def count(self, name, n=1):
        self.counters[name] = self.counters.get(name, 0) + n

    def observe(self, name, value):
        self.seen.setdefault(name, set()).add(value if isinstance(value, (str, int, float, bool, type(None))) else repr(value))

    def violate(self, clause, msg, mech=None, **detail):
        if len(self.violations) < 20:
            self.violations.append(dict(clause=clause, msg=str(msg)[:2000], mech=mech, detail=_jsonable(detail)))
        self.count('violations_raw')

    def incon(self, reason):
        if len(self.inconclusive) < 20:
            self.inconclusive.append(str(reason)[:2000])

    def check(self, cond, clause, msg, mech=None, **detail):
        self.count('oracle_evals')
        self.count('oracle:' + clause)
        if not cond:
            self.violate(clause, msg() if callable(msg) else msg, mech=mech, **detail)
        return bool(cond)

    def to_json(self):
        return dict(
            case=self.case,
            violations=self.violations,
            inconclusive=self.inconclusive,
            counters=self.counters,
            nontrivial=bool(self.nontrivial),
            key=self.key or stable_hash(self.case),
            sample=_jsonable(self.sample),
            seen={k: sorted(v, key=repr)[:400] for k, v in self.seen.items()},
        )


def _jsonable(x, depth=0):
    import numpy as np

    if depth > 6:
        return repr(x)[:200]
    if isinstance(x, dict):
        return {str(k): _jsonable(v, depth + 1) for k, v in list(x.items())[:200]}
    if isinstance(x, (list, tuple, set)):
        return [_jsonable(v, depth + 1) for v in list(x)[:200]]
    if isinstance(x, (np.integer,)):
        return int(x)
    if isinstance(x, (np.floating,)):
        return float(x)
    if isinstance(x, (np.bool_,)):
        return bool(x)
    if isinstance(x, complex) or isinstance(x, np.complexfloating):
        return [float(x.real), float(x.imag)]
    if isinstance(x, np.ndarray):
        return _jsonable(x.tolist() if x.size <= 64 else {'shape': x.shape, 'digest': digest(x)}, depth + 1)
    if isinstance(x, (str, int, float, bool)) or x is None:
        return x
    return repr(x)[:300]


def sut_file(tb):
    """classify the innermost non-library frame of a traceback: 'sut', 'harness' or 'lib'."""
    frames = traceback.extract_tb(tb)
    where = 'harness'
    for fr in frames:
        fn = os.path.realpath(fr.filename)
        if fn.startswith(REPO + os.sep):
            where = 'sut'
        elif fn.startswith(VERIF + os.sep):
            where = 'harness'
    return where


def in_sut(exc):
    """True when the exception was raised while a frame of the tree under test was active
    below the last harness frame (i.e. the SUT raised it or a library called by the SUT)."""
    return sut_file(exc.__traceback__) == 'sut'


def assert_sut_location():
    import pySDC

    p = os.path.realpath(pySDC.__file__)
    if not p.startswith(REPO + os.sep):
        raise RuntimeError(f'pySDC imported from {p}, not from the tree under test {REPO}')


# ----------------------------------------------------------------------------- worker side


def worker_main(argv):
    import logging
    import warnings

    warnings.filterwarnings('ignore')
    logging.disable(logging.CRITICAL)
    prop, shard_path, out_path = argv
    mod = importlib.import_module(f'vf.checks.{prop}')
    assert_sut_location()
    with open(shard_path) as fh:
        cases = json.load(fh)
    out = []
    t_budget = float(os.environ.get('VERIF_CASE_WATCHDOG', '600'))
    for case in cases:
        t0 = time.time()
        try:
            res = mod.run_case(case)
            if not isinstance(res, Result):
                raise TypeError('run_case must return a Result')
        except BaseException as e:  # noqa
            res = Result(case)
            tb = traceback.format_exc()[-3000:]
            if isinstance(e, (KeyboardInterrupt, SystemExit)):
                raise
            if in_sut(e) and getattr(mod, 'SUT_EXCEPTION_IS_VIOLATION', True):
                res.violate('no-exception', f'system under test raised {type(e).__name__}: {e}', mech=None, traceback=tb)
            else:
                res.incon(f'harness error {type(e).__name__}: {e}\n{tb}')
        j = res.to_json()
        j['wall'] = time.time() - t0
        if j['wall'] > t_budget:
            # the case ran to completion, so its verdict stands; slowness is reported, not turned into a verdict
            j['counters']['slow_cases_over_%ds' % int(t_budget)] = 1
        out.append(j)
        with open(out_path, 'w') as fh:
            json.dump(out, fh)


# ----------------------------------------------------------------------------- parent side


def load_known_findings():
    kf = {}
    path = os.path.join(VERIF, 'KNOWN_FINDINGS.txt')
    if os.path.exists(path):
        for line in open(path):
            line = line.strip()
            if line.startswith('finding:'):
                parts = line.split(None, 3)
                prop = parts[1].split('=', 1)[1]
                key = parts[2].split('=', 1)[1]
                kf[(prop, key)] = parts[3] if len(parts) > 3 else ''
    return kf


def run_check(prop, tier, seed, replay=None, nproc=None):
    t0 = time.time()
    mod = importlib.import_module(f'vf.checks.{prop}')
    nproc = nproc or NPROC
    if replay:
        with open(replay) as fh:
            rp = json.load(fh)
        cases = [rp['case']]
    else:
        cases = mod.cases(tier, seed)
    for i, c in enumerate(cases):
        c.setdefault('_i', i)
    # more shards than workers, longest first, started as workers become free: static cost estimates are rough and a
    # single slow shard would otherwise decide the wall time
    factor = int(os.environ.get('VERIF_SHARD_FACTOR', 3 if tier == 'quick' else 8))
    nshards = max(1, min(nproc * factor, max(nproc, len(cases) // 4), len(cases)))
    if replay:
        nshards = 1
    order = sorted(range(len(cases)), key=lambda i: -cases[i].get('_cost', 1))
    shards = [[] for _ in range(nshards)]
    loads = [0.0] * nshards
    for i in order:
        k = loads.index(min(loads))
        shards[k].append(cases[i])
        loads[k] += cases[i].get('_cost', 1)
    tmpdir = tempfile.mkdtemp(prefix=f'vf_{prop}_')
    env = dict(os.environ)
    env['PYTHONPATH'] = os.pathsep.join([VERIF, REPO] + ([env['PYTHONPATH']] if env.get('PYTHONPATH') else []))
    env['PYTHONHASHSEED'] = '0'
    env['VERIF_REPO'] = REPO
    env.setdefault('OMP_NUM_THREADS', '1')
    env.setdefault('OPENBLAS_NUM_THREADS', '1')
    env.setdefault('MKL_NUM_THREADS', '1')
    env['NUMBA_DISABLE_JIT'] = env.get('NUMBA_DISABLE_JIT', '1')
    env['PYSDC_VERIF'] = '1'
    watchdog = float(os.environ.get('VERIF_WATCHDOG', getattr(mod, 'WATCHDOG', {}).get(tier, 3000 if tier == 'quick' else 7200)))
    deadline = t0 + watchdog
    pending = sorted(range(nshards), key=lambda k: -loads[k])
    running = []
    results = []
    global_incon = []

    def start(k):
        sp = os.path.join(tmpdir, f'shard{k}.json')
        op = os.path.join(tmpdir, f'out{k}.json')
        with open(sp, 'w') as fh:
            json.dump(shards[k], fh)
        lp = open(os.path.join(tmpdir, f'log{k}.txt'), 'w')
        p = subprocess.Popen([PY, '-m', 'vf.worker', prop, sp, op], env=env, cwd=tmpdir, stdout=lp, stderr=subprocess.STDOUT)
        return (p, shards[k], op, lp)

    def collect(p, shard, op, lp):
        lp.close()
        got = []
        if os.path.exists(op):
            try:
                with open(op) as fh:
                    got = json.load(fh)
            except Exception as e:  # noqa
                global_incon.append(f'unreadable worker output: {e}')
        results.extend(got)
        if len(got) < len(shard):
            tail = open(lp.name).read()[-1500:]
            if p.returncode not in (0, None) and p.returncode != -9:
                global_incon.append(f'worker exited with {p.returncode} after {len(got)}/{len(shard)} cases: {tail}')
            elif len(got) < len(shard) and not any('worker produced' in g for g in global_incon):
                global_incon.append(f'worker produced {len(got)}/{len(shard)} results: {tail}')

    timed_out = False
    while pending or running:
        while pending and len(running) < nproc and not timed_out:
            running.append(start(pending.pop(0)))
        still = []
        for item in running:
            if item[0].poll() is None:
                still.append(item)
            else:
                collect(*item)
        running = still
        if time.time() > deadline and not timed_out:
            timed_out = True
            for item in running:
                item[0].kill()
            global_incon.append(f'worker watchdog fired after {watchdog:.0f}s with {len(pending)} shard(s) not started (wall clock; inconclusive, not a violation)')
            pending = []
        if running:
            time.sleep(0.05)
    import shutil

    shutil.rmtree(tmpdir, ignore_errors=True)
    return summarize(mod, prop, tier, seed, cases, results, global_incon, t0, replay)


def summarize(mod, prop, tier, seed, cases, results, global_incon, t0, replay=None):
    kf = load_known_findings()
    counters = {}
    seen = {}
    keys_nontrivial = set()
    samples = []
    violations = []
    known = {}
    incon = list(global_incon)
    for r in results:
        for k, v in r['counters'].items():
            counters[k] = counters.get(k, 0) + v
        for k, v in r.get('seen', {}).items():
            seen.setdefault(k, set()).update(map(str, v))
        if r['nontrivial']:
            keys_nontrivial.add(r['key'])
        if r.get('sample') is not None and len(samples) < 6 and (r['_take'] if '_take' in r else True):
            samples.append(r['sample'])
        for v in r['violations']:
            if v.get('mech') and (prop, v['mech']) in kf:
                known.setdefault(v['mech'], []).append((r['case'], v))
            else:
                violations.append((r['case'], v))
        for reason in r['inconclusive']:
            incon.append(reason)
    agg = dict(counters=counters, seen=seen, n_results=len(results), n_cases=len(cases), tier=tier)
    if hasattr(mod, 'finalize') and not replay:
        for reason in mod.finalize(agg) or []:
            incon.append(reason)
    if len(results) == 0:
        incon.append('no case produced a result')
    if not replay and counters.get('oracle_evals', 0) == 0:
        incon.append('no oracle was evaluated')
    os.makedirs(os.path.join(OUT, 'replays'), exist_ok=True)
    lines = []
    for mech, lst in sorted(known.items()):
        case, v = lst[0]
        lines.append(f'KNOWN-FINDING: property={prop} key={mech} ({len(lst)} case(s) this run) {kf[(prop, mech)]} :: e.g. {v["msg"][:300]}')
    replay_paths = []
    by_clause = {}
    for case, v in violations:
        by_clause.setdefault(v['clause'], []).append((case, v))
    for clause, lst in sorted(by_clause.items()):
        for case, v in lst[:3]:
            name = f'{prop}-{stable_hash([case, v["clause"]])}.json'
            path = os.path.join(OUT, 'replays', name)
            with open(path, 'w') as fh:
                json.dump(dict(property=prop, seed=seed, tier=tier, case=case, violation=v), fh, indent=1, default=repr)
            replay_paths.append(path)
            lines.append(f'VIOLATION property={prop} replay={path} clause={clause} :: {v["msg"][:500]}')
        if len(lst) > 3:
            lines.append(f'  ... {len(lst) - 3} more violation(s) of clause {clause}')
    if not samples:
        samples = [r['case'] for r in results[:3]]
    wall = time.time() - t0
    coverage = dict(
        evaluations=len(results),
        distinct_nontrivial=len(keys_nontrivial),
        rule=mod.RULE,
        samples=samples,
        exhaustive=bool(getattr(mod, 'EXHAUSTIVE', {}).get(tier, False)),
        counters={k: counters[k] for k in sorted(counters)},
        observed={k: (sorted(v)[:60] if len(v) <= 60 else {'distinct': len(v), 'first': sorted(v)[:25]}) for k, v in sorted(seen.items())},
        observed_distinct={k: len(v) for k, v in sorted(seen.items())},
        known_findings_seen={k: len(v) for k, v in known.items()},
        inconclusive=incon[:10],
        verdict='violated' if violations else ('inconclusive' if incon else 'held'),
        tree=REPO,
    )
    if hasattr(mod, 'coverage_extra'):
        coverage.update(mod.coverage_extra(agg, tier))
    ev = dict(
        property_id=prop,
        tier=tier,
        seed=int(seed),
        level=mod.LEVEL,
        coverage=coverage,
        assumptions=list(mod.ASSUMPTIONS),
        wall_s=round(wall, 2),
        violations=len(violations),
    )
    if not replay:
        os.makedirs(os.path.join(OUT, 'evidence'), exist_ok=True)
        with open(os.path.join(OUT, 'evidence', f'{prop}.json'), 'w') as fh:
            json.dump(ev, fh, indent=1, default=repr)
    for ln in lines:
        print(ln)
    print(
        f'[{prop}] tier={tier} seed={seed} cases={len(results)}/{len(cases)} distinct_nontrivial={len(keys_nontrivial)} '
        f'oracle_evals={counters.get("oracle_evals", 0)} violations={len(violations)} known={sum(len(v) for v in known.values())} '
        f'inconclusive={len(incon)} wall={wall:.1f}s'
    )
    if violations:
        return 1
    if incon:
        print(f'INCONCLUSIVE property={prop} reason={incon[0][:1500]}')
        return 2
    return 0


def main(argv=None):
    import argparse

    ap = argparse.ArgumentParser()
    ap.add_argument('prop')
    ap.add_argument('--tier', default=os.environ.get('VERIF_TIER', 'quick'), choices=['quick', 'thorough'])
    ap.add_argument('--seed', type=int, default=int(os.environ.get('VERIF_SEED', '0')))
    ap.add_argument('--replay', default=None)
    ap.add_argument('--nproc', type=int, default=None)
    a = ap.parse_args(argv)
    sys.exit(run_check(a.prop, a.tier, a.seed, a.replay, a.nproc))
