"""Probe and injector convergence controllers.

They are inserted through description['convergence_controllers'] and positioned by control_order.
Injectors only write status fields that shipped controllers write themselves, at the same call sites.
A shared 'box' (plain dict passed in params) carries scripts in and recordings out.
"""

from pySDC.core.convergence_controller import ConvergenceController


class _Base(ConvergenceController):
    ORDER = 0

    def setup(self, controller, params, description, **kwargs):
        return {'control_order': self.ORDER, 'box': None, **super().setup(controller, params, description, **kwargs)}


class ResidualInjector(_Base):
    """order 199: overwrite L.status.residual with a scripted value just before CheckConvergence (200).
    box['script'][slot] = list of residual values indexed by S.status.iter ; box['seen'] records what was replaced."""

    ORDER = 199

    def check_iteration_status(self, controller, S, **kwargs):
        box = self.params.box
        seq = box['script'].get(S.status.slot) if isinstance(box['script'], dict) else box['script'][S.status.slot]
        k = S.status.iter
        if seq is not None and k < len(seq):
            box.setdefault('seen', []).append((S.status.slot, k, S.levels[0].status.residual, seq[k]))
            S.levels[0].status.residual = seq[k]


class ContinueInjector(_Base):
    """order 198 (before CheckConvergence at 200): raise S.status.force_continue at the scripted (slot, iter) positions
    box['force_continue'] -- the flag shipped code raises in Adaptivity(avoid_restarts=True); box['forced'] records the calls."""

    ORDER = 198

    def check_iteration_status(self, controller, S, **kwargs):
        box = self.params.box
        if (S.status.slot, S.status.iter) in (box.get('force_continue') or ()):
            S.status.force_continue = True
            box.setdefault('forced', []).append((S.status.slot, S.status.iter))


class ForceDoneInjector(_Base):
    """order 198: raise S.status.force_done at the scripted (block, slot, iter) positions box['force_done_at'] (box['block'] is kept
    by the harness) -- the flag shipped code raises in the switch estimator / interpolation controllers"""

    ORDER = 198

    def check_iteration_status(self, controller, S, **kwargs):
        box = self.params.box
        if (box.get('block', 0), S.status.slot, S.status.iter) in (box.get('force_done_at') or ()):
            S.status.force_done = True
            box.setdefault('forced_done', []).append((box.get('block', 0), S.status.slot, S.status.iter))


class DoneInjector(_Base):
    """order 250 (after CheckConvergence): S.status.done := table[slot][iter], forced True at iter >= maxiter;
    optional box['force_done'] = set of (slot, iter) at which force_done is raised."""

    ORDER = 250

    def check_iteration_status(self, controller, S, **kwargs):
        box = self.params.box
        k = S.status.iter
        row = box['table'][S.status.slot]
        fd = box.get('force_done') or ()
        if (S.status.slot, k) in fd:
            S.status.force_done = True
        S.status.done = True if (k >= S.params.maxiter or S.status.force_done) else bool(row[k] if k < len(row) else 1)
        box.setdefault('decisions', []).append((S.status.slot, k, S.status.done))


class RestartInjector(_Base):
    """order 90 (before BasicRestarting at 95): when the step has finished iterating (iter >= maxiter), request a restart
    according to box['script'][(slot_start_time_key, attempt)] -> dict(dt_factor=float|None).
    Attempts are counted per start-time key (rounded to 12 significant digits)."""

    ORDER = 90

    @staticmethod
    def tkey(t):
        return float(f'{t:.12e}')

    def determine_restart(self, controller, S, **kwargs):
        box = self.params.box
        if S.status.iter >= S.params.maxiter:
            key = self.tkey(S.time)
            seen = box.setdefault('attempt_seen', {})
            # one count per (block, slot): determine_restart is called once per it_check of that step at maxiter
            n = box.setdefault('attempts', {}).get(key, 0)
            tag = (key, S.status.slot, box.get('block', 0))
            if tag in seen:
                return
            seen[tag] = True
            box['attempts'][key] = n + 1
            act = box['script'].get((key, n)) or box['script'].get(('*', key, n))
            box.setdefault('log', []).append(dict(time=S.time, slot=S.status.slot, attempt=n, inject=bool(act), dt=S.dt, block=box.get('block', 0)))
            if act:
                S.status.restart = True
                f = act.get('dt_factor')
                for L in S.levels:
                    if f is not None:
                        L.status.dt_new = L.params.dt * f


class ErrorInjector(_Base):
    """order -60: overwrite L.status.error_embedded_estimate between the estimator (-80) and adaptivity (-50)."""

    ORDER = -60

    def get_new_step_size(self, controller, S, **kwargs):
        box = self.params.box
        if S.status.iter >= S.params.maxiter or box.get('every_iter'):
            key = RestartInjector.tkey(S.time)
            n = box.setdefault('attempts', {}).get((key, S.status.iter), 0)
            box['attempts'][(key, S.status.iter)] = n + 1
            val = box['fun'](S.time, S.dt, n) if 'fun' in box else box['script'].get((key, n))
            if val is not None:
                S.levels[0].status.error_embedded_estimate = val
                box.setdefault('log', []).append(dict(time=S.time, dt=S.dt, attempt=n, err=val, slot=S.status.slot))


def make_probe(order, name=None):
    """a probe class recording (phase, slot, iter, time, dt, dt_new, restart, done, force_done, error estimate) at its position"""

    class Probe(_Base):
        ORDER = order

        def _rec(self, phase, S):
            L = S.levels[0]
            self.params.box.setdefault('probe', []).append(
                dict(order=order, phase=phase, slot=S.status.slot, iter=S.status.iter, time=L.time, dt=L.params.dt, dt_new=L.status.get('dt_new'),
                     restart=S.status.get('restart'), done=S.status.done, force_done=S.status.force_done, err=L.status.get('error_embedded_estimate'),
                     restarts_in_a_row=S.status.get('restarts_in_a_row'), residual=L.status.residual, block=self.params.box.get('block'))
            )

        def get_new_step_size(self, controller, S, **kwargs):
            self._rec('dt', S)

        def determine_restart(self, controller, S, **kwargs):
            self._rec('restart', S)

        def check_iteration_status(self, controller, S, **kwargs):
            self._rec('status', S)

    Probe.__name__ = name or f'Probe_{str(order).replace("-", "m").replace(".", "_")}'
    Probe.__qualname__ = Probe.__name__
    return Probe
