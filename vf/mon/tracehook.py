"""TraceHook: a pySDC Hooks subclass that records every callback with the live step state.

Usage:  H = make_trace_hook(arrays={'post_step', 'post_sweep'}, digests={'post_step'})
        controller_params['hook_class'] = [H]
        ... run ...
        hook = find_hook(controller, H);  hook.events
The hook calls super() first so that the base-class bookkeeping (num_restarts) is untouched, never calls
eval_f / solve_system on the SUT's problems and never writes to step/level state.
"""

import numpy as np

from pySDC.core.hooks import Hooks

from vf.core import digest

CALLBACKS = [
    'pre_run', 'pre_step', 'pre_predict', 'post_predict', 'pre_iteration', 'pre_sweep', 'post_sweep',
    'post_iteration', 'post_step', 'pre_comm', 'post_comm', 'post_run', 'post_setup', 'pre_setup',
]


def _copy(x):
    return None if x is None else np.array(np.asarray(x), copy=True)


class TraceHookBase(Hooks):
    ARRAYS = frozenset()
    DIGESTS = frozenset()
    SKIP = frozenset({'pre_comm', 'post_comm'})
    ALL_LEVELS = False
    EXTRA = None  # optional callable(event_dict, step, level_number)

    def __init__(self):
        super().__init__()
        self.events = []
        self.seq = 0

    def _rec(self, cb, step, level_number):
        self.seq += 1
        if cb in self.SKIP:
            return
        ev = {'seq': self.seq, 'cb': cb, 'lvl': level_number}
        if step is not None:
            st = step.status
            L = step.levels[level_number if level_number is not None else 0]
            ev.update(
                slot=st.slot, iter=st.iter, stage=st.stage, done=st.done, prev_done=st.prev_done, first=st.first, last=st.last,
                force_done=st.force_done, force_continue=st.get('force_continue') if hasattr(st, 'get') else None,
                restart=st.get('restart'), restarts_in_a_row=st.get('restarts_in_a_row'),
                time=L.time, dt=L.dt, sweep=L.status.sweep, residual=L.status.residual, dt_new=L.status.get('dt_new') if hasattr(L.status, 'get') else None,
                nlev=len(step.levels),
            )
            if cb in self.DIGESTS:
                levels = step.levels if self.ALL_LEVELS else [L]
                ev['dig'] = [
                    dict(u=[None if x is None else digest(x) for x in l.u], f=[None if x is None else digest(x) for x in l.f],
                         uend=None if l.uend is None else digest(l.uend), tau=[None if x is None else digest(x) for x in l.tau])
                    for l in levels
                ]
                ev['ids'] = dict(u0=id(L.u[0]), uend=id(L.uend))
            if cb in self.ARRAYS:
                levels = step.levels if self.ALL_LEVELS else [L]
                ev['arr'] = [
                    dict(u=[_copy(x) for x in l.u], f=[_f_copy(x) for x in l.f], tau=[_copy(x) for x in l.tau], uend=_copy(l.uend),
                         time=l.time, dt=l.dt, residual=l.status.residual)
                    for l in levels
                ]
            if self.EXTRA is not None:
                type(self).EXTRA(ev, step, level_number)
        self.events.append(ev)


def _f_copy(f):
    if f is None:
        return None
    return np.array(np.asarray(f), copy=True)


def _mk(cb):
    if cb == 'post_comm':
        def method(self, step, level_number, add_to_stats=False):
            getattr(Hooks, cb)(self, step, level_number, add_to_stats)
            self._rec(cb, step, level_number)
    else:
        def method(self, step, level_number):
            getattr(Hooks, cb)(self, step, level_number)
            self._rec(cb, step, level_number)
    method.__name__ = cb
    return method


for _cb in CALLBACKS:
    setattr(TraceHookBase, _cb, _mk(_cb))


def make_trace_hook(arrays=(), digests=(), skip=('pre_comm', 'post_comm'), all_levels=False, extra=None, name='TraceHook'):
    return type(name, (TraceHookBase,), dict(ARRAYS=frozenset(arrays), DIGESTS=frozenset(digests), SKIP=frozenset(skip), ALL_LEVELS=all_levels,
                                             EXTRA=staticmethod(extra) if extra else None))


def find_hook(controller, cls):
    for h in controller.hooks:
        if isinstance(h, cls):
            return h
    raise LookupError('trace hook not installed')


def reset_stats_keep(hook):
    """events survive Hooks.reset_stats (which only clears the stats dict)"""
    return hook.events
