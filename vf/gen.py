"""Seeded generators of run configurations (JSON-able case dicts) and builders that turn a case into a
fresh pySDC description / controller inside the worker."""

import numpy as np

PROBLEMS = ['dahlquist', 'dahlquist_imex', 'heat', 'heatf', 'adv', 'dense', 'denseimex', 'dense2', 'dense_x', 'dahlquist_x']
IMPLICIT_NAMES = ['IE', 'LU', 'LU2', 'MIN', 'MIN-SR-S', 'MIN-SR-NS', 'IEpar', 'TRAP', 'Qpar', 'GS', 'PIC', 'MIN-SR-FLEX', 'LDU', 'TRAPAR', 'DNODES', 'Jumper']
EXPLICIT_NAMES = ['EE', 'PIC', 'FE']


def qd_implicit_names():
    from qmat.qdelta import QDELTA_GENERATORS

    return sorted(QDELTA_GENERATORS)


def gen_run_case(rng, *, max_procs=8, max_levels=3, problems=None, allow_nonright=True, nsteps_max=None, max_M=5, kdep_ok=True):
    problems = problems or PROBLEMS
    prob = problems[int(rng.integers(0, len(problems)))]
    nlev = int(rng.choice([1, 1, 2, 2, 3][: 2 * max_levels - 1]))
    num_procs = int(rng.choice([1, 1, 2, 3, 4, 5, 8])) if max_procs >= 8 else int(rng.integers(1, max_procs + 1))
    if prob == 'dense2':
        nlev = min(nlev, 2)
    qts = ['RADAU-RIGHT', 'RADAU-RIGHT', 'LOBATTO']
    if allow_nonright and (nlev == 1 or num_procs == 1):
        qts += ['GAUSS', 'RADAU-LEFT']
    qt = qts[int(rng.integers(0, len(qts)))]
    if nlev > 1 and num_procs > 1:
        qt = ['RADAU-RIGHT', 'LOBATTO'][int(rng.integers(0, 2))]
    nt = ['LEGENDRE', 'LEGENDRE', 'EQUID', 'CHEBY-1', 'CHEBY-2', 'CHEBY-3', 'CHEBY-4'][int(rng.integers(0, 7))]
    Mf = int(rng.integers(2, max_M + 1))
    if qt not in ('LOBATTO', 'RADAU-LEFT') and rng.random() < 0.1:
        Mf = 1
    Ms = [Mf]
    for _ in range(nlev - 1):
        Ms.append(max(2 if qt in ('LOBATTO', 'RADAU-LEFT') else 1, Ms[-1] - int(rng.integers(0, 3))))
    space_coarsen = bool(nlev > 1 and prob in ('heat', 'heatf', 'adv') and rng.random() < 0.75)
    if nlev > 1 and not space_coarsen and Ms[-1] == Ms[0] and prob in ('heat', 'heatf', 'adv'):
        space_coarsen = True
    names = qd_implicit_names()
    QI = names[int(rng.integers(0, len(names)))] if rng.random() < 0.6 else IMPLICIT_NAMES[int(rng.integers(0, len(IMPLICIT_NAMES)))]
    QE = EXPLICIT_NAMES[int(rng.integers(0, len(EXPLICIT_NAMES)))]
    nsweeps = [int(rng.choice([1, 1, 2, 3])) for _ in range(nlev)]
    if nlev > 1:
        nsweeps[-1] = 1
    predict = [None, 'fine_only', 'pfasst_burnin'][int(rng.integers(0, 3))] if nlev > 1 else None
    nsteps = int(rng.integers(1, (nsteps_max or 2 * num_procs) + 1))
    case = dict(
        prob=prob, pseed=int(rng.integers(0, 2**31)), n=int(rng.integers(1, 5)), nlev=nlev, num_procs=num_procs, qt=qt, nt=nt, Ms=Ms,
        space_coarsen=space_coarsen, iorder=int(rng.choice([2, 4, 6, 8])), rorder=int(rng.choice([2, 2, 4])), QI=QI, QE=QE, nsweeps=nsweeps,
        predict=predict, mssdc_jac=bool(rng.random() < 0.5), residual_type=['full_abs', 'last_abs', 'full_rel', 'last_rel'][int(rng.integers(0, 4))],
        initial_guess=['spread', 'spread', 'copy', 'zero', 'random'][int(rng.integers(0, 5))], restol=float(10 ** rng.uniform(-12, -8)), maxiter=150,
        dt=float(10 ** rng.uniform(-2.5, -0.3)), nsteps=nsteps, t0=float(rng.choice([0.0, 0.0, float(rng.uniform(-3, 7))])),
        finter=bool(rng.random() < 0.3), bc=['dirichlet-zero', 'periodic'][int(rng.integers(0, 2))], coll_update=bool(rng.random() < 0.15),
        fd_order=int(rng.choice([2, 4])), all_to_done=False,
    )
    return case


def sweeper_for(case):
    from pySDC.implementations.sweeper_classes.generic_implicit import generic_implicit
    from pySDC.implementations.sweeper_classes.imex_1st_order import imex_1st_order
    from pySDC.implementations.sweeper_classes.multi_implicit import multi_implicit

    p = case['prob']
    if p in ('dense_x', 'dahlquist_x'):
        from pySDC.implementations.sweeper_classes.explicit import explicit

        return explicit
    if p in ('dahlquist', 'heat', 'adv', 'dense'):
        return generic_implicit
    if p in ('dahlquist_imex', 'heatf', 'denseimex'):
        return imex_1st_order
    return multi_implicit


def problem_for(case):
    """returns (problem_class, problem_params) ; list-valued params are per level"""
    from vf import harness_problems as hp
    from vf.levelkit import rand_matrix

    rng = np.random.default_rng(case['pseed'])
    p, n, nlev = case['prob'], case['n'], case['nlev']
    if p in ('dahlquist', 'dahlquist_x'):
        from pySDC.implementations.problem_classes.TestEquation_0D import testequation0d

        lam = -10 ** rng.uniform(-1, 1.3, n) + 1j * rng.uniform(-5, 5, n)
        return testequation0d, dict(lambdas=np.array(lam), u0=1.0)
    if p == 'dahlquist_imex':
        from pySDC.implementations.problem_classes.TestEquation_0D import test_equation_IMEX

        lam = -10 ** rng.uniform(-1, 1.3, n) + 0j
        lame = 1j * rng.uniform(-2, 2, n)
        return test_equation_IMEX, dict(lambdas_implicit=np.array(lam), lambdas_explicit=np.array(lame), u0=1.0)
    if p in ('heat', 'heatf', 'adv'):
        periodic = case['bc'] == 'periodic' or p == 'adv'
        if case['space_coarsen']:
            nv = ([16, 8, 4] if periodic else [15, 7, 3])[:nlev]
        else:
            nv = [16 if periodic else 15] * nlev
        nv = nv if nlev > 1 else nv[0]
        if p == 'adv':
            from pySDC.implementations.problem_classes.AdvectionEquation_ND_FD import advectionNd

            return advectionNd, dict(nvars=nv, c=float(rng.uniform(0.2, 1.0)), freq=2, stencil_type='center', order=case['fd_order'], bc='periodic')
        from pySDC.implementations.problem_classes.HeatEquation_ND_FD import heatNd_forced, heatNd_unforced

        pc = heatNd_forced if p == 'heatf' else heatNd_unforced
        return pc, dict(nvars=nv, nu=float(10 ** rng.uniform(-2, 0)), freq=2 if periodic else int(rng.integers(1, 3)), bc='periodic' if periodic else 'dirichlet-zero', order=case['fd_order'])
    A = rand_matrix(rng, n, 'stable')
    B = rand_matrix(rng, n, 'any', scale=0.5)
    forcing = dict(c0=rng.standard_normal(n), c1=rng.standard_normal(n), w=float(rng.uniform(0.5, 3)))
    if p in ('dense', 'dense_x'):
        return hp.DenseLinear, dict(A=A, **forcing)
    if p == 'denseimex':
        return hp.DenseIMEX, dict(A=A, B=B, **forcing)
    return hp.DenseTwoComp, dict(A=A, B=B, **forcing)


def description_for(case, extra_cc=None):
    pc, pp = problem_for(case)
    sw = sweeper_for(case)
    nlev = case['nlev']
    swp = dict(num_nodes=case['Ms'] if nlev > 1 else case['Ms'][0], quad_type=case['qt'], node_type=case['nt'], initial_guess=case['initial_guess'])
    if case.get('coll_update'):
        swp['do_coll_update'] = True
    name = sw.__name__
    if name == 'generic_implicit':
        swp['QI'] = case['QI']
    elif name == 'explicit':
        swp['QE'] = case['QE']
    elif name == 'imex_1st_order':
        swp['QI'] = case['QI']
        swp['QE'] = case['QE']
    else:
        swp['Q1'] = case['QI']
        swp['Q2'] = case['QI']
    lp = dict(dt=case['dt'], restol=case['restol'], residual_type=case['residual_type'], nsweeps=case['nsweeps'] if nlev > 1 else case['nsweeps'][0])
    if case.get('e_tol'):
        lp['e_tol'] = case['e_tol']  # increment-based stopping (adds the embedded-error estimator and its level status variables)
    desc = dict(problem_class=pc, problem_params=pp, sweeper_class=sw, sweeper_params=swp, level_params=lp, step_params=dict(maxiter=case['maxiter']))
    if nlev > 1:
        if case['space_coarsen']:
            from pySDC.implementations.transfer_classes.TransferMesh import mesh_to_mesh

            periodic = pp.get('bc') == 'periodic'
            desc['space_transfer_class'] = mesh_to_mesh
            desc['space_transfer_params'] = dict(iorder=case['iorder'], rorder=case['rorder'], periodic=periodic)
        else:
            from pySDC.implementations.transfer_classes.TransferMesh_NoCoarse import mesh_to_mesh as nocoarse

            desc['space_transfer_class'] = nocoarse
            desc['space_transfer_params'] = {}
        desc['base_transfer_params'] = dict(finter=case['finter'])
    if extra_cc:
        desc['convergence_controllers'] = dict(extra_cc)
    return desc


def controller_params_for(case, hooks):
    cp = dict(logger_level=50, dump_setup=False, hook_class=list(hooks), mssdc_jac=case['mssdc_jac'], all_to_done=case.get('all_to_done', False))
    if case['nlev'] > 1:
        cp['predict_type'] = case['predict']
    return cp


def build_controller(case, hooks=(), extra_cc=None):
    from pySDC.implementations.controller_classes.controller_nonMPI import controller_nonMPI

    desc = description_for(case, extra_cc)
    return controller_nonMPI(case['num_procs'], controller_params_for(case, hooks), desc), desc


def linearize(P, t=0.0):
    """extract (A, B, g) with f(u,t) = A u [implicit piece] + B u [other piece] + g(t) from a twin problem instance by
    evaluating it on unit vectors (the ODE is *defined* by eval_f)."""
    u = P.u_init
    u[:] = 0.0
    shape = np.asarray(u).shape
    n = int(np.prod(shape))

    def pieces(f):
        nm = type(f).__name__
        if nm == 'imex_mesh':
            return np.asarray(f.impl).reshape(-1).copy(), np.asarray(f.expl).reshape(-1).copy()
        if nm == 'comp2_mesh':
            return np.asarray(f.comp1).reshape(-1).copy(), np.asarray(f.comp2).reshape(-1).copy()
        return np.asarray(f).reshape(-1).copy(), np.zeros(n, dtype=np.asarray(f).dtype)

    f0a, f0b = pieces(P.eval_f(u, t))
    dtype = np.result_type(f0a.dtype, np.asarray(u).dtype)
    A = np.zeros((n, n), dtype=dtype)
    B = np.zeros((n, n), dtype=dtype)
    for i in range(n):
        e = P.u_init
        e[:] = 0.0
        e.reshape(-1)[i] = 1.0
        fa, fb = pieces(P.eval_f(e, t))
        A[:, i] = fa - f0a
        B[:, i] = fb - f0b

    def g(tt):
        z = P.u_init
        z[:] = 0.0
        a, b = pieces(P.eval_f(z, tt))
        return a + b

    return A, B, g
