"""Helpers to build real pySDC Step/Level objects and load them with arbitrary node data."""

import numpy as np

QUAD_TYPES = ['RADAU-RIGHT', 'LOBATTO', 'GAUSS', 'RADAU-LEFT']
NODE_TYPES = ['LEGENDRE', 'EQUID', 'CHEBY-1', 'CHEBY-2', 'CHEBY-3', 'CHEBY-4']


def rand_matrix(rng, n, kind='stable', cplx=False, scale=1.0):
    A = rng.standard_normal((n, n))
    if cplx:
        A = A + 1j * rng.standard_normal((n, n))
    if kind == 'stable':
        A = A - (np.max(np.real(np.linalg.eigvals(A))) + 0.3) * np.eye(n)
    return scale * A / max(1.0, np.linalg.norm(A, 2))


def make_step(problem_class, problem_params, sweeper_class, sweeper_params, level_params, extra=None):
    from pySDC.core.step import Step

    desc = dict(
        problem_class=problem_class,
        problem_params=dict(problem_params),
        sweeper_class=sweeper_class,
        sweeper_params=dict(sweeper_params),
        level_params=dict(level_params),
    )
    desc.update(extra or {})
    return Step(desc)


def arr(x):
    return np.array(np.asarray(x), copy=True)


def load_level(L, t0, U, tau=None, f0=True):
    """fill a level with node values U (M+1, n) [row 0 = u0], consistent f (evaluated by the level's own
    problem at the node times) and optional tau (M, n)."""
    P = L.prob
    M = L.sweep.coll.num_nodes
    nodes = L.sweep.coll.nodes
    L.status.time = t0
    L.status.unlocked = True
    L.status.updated = True
    L.status.sweep = 1
    for m in range(M + 1):
        L.u[m] = P.u_init
        L.u[m][:] = U[m]
        t = t0 + (0.0 if m == 0 else L.dt * nodes[m - 1])
        L.f[m] = P.eval_f(L.u[m], t)
    for m in range(M):
        if tau is not None:
            L.tau[m] = P.u_init
            L.tau[m][:] = tau[m]
        else:
            L.tau[m] = None


def read_u(L):
    return np.array([arr(x) for x in L.u])


def full_f(f):
    """sum of all pieces of a right-hand side object as plain ndarray"""
    name = type(f).__name__
    if name == 'imex_mesh':
        return arr(f.impl) + arr(f.expl)
    if name == 'comp2_mesh':
        return arr(f.comp1) + arr(f.comp2)
    return arr(f)
