"""Small workload problems written against pySDC's public Problem API (workload, not SUT).

All are linear with a dense matrix so that bugs hidden by diagonal operators surface, and carry an
optional time-dependent forcing g(t) = c0*cos(w t) + c1*t so that wrong node times are visible.
"""

import numpy as np

from pySDC.core.problem import Problem
from pySDC.implementations.datatype_classes.mesh import comp2_mesh, imex_mesh, mesh


def forcing(c0, c1, w, t):
    return np.asarray(c0) * np.cos(w * t) + np.asarray(c1) * t


class DenseLinear(Problem):
    """u' = A u + g(t), fully implicit."""

    dtype_u = mesh
    dtype_f = mesh

    def __init__(self, A=None, c0=None, c1=None, w=1.0):
        A = np.asarray(A)
        n = A.shape[0]
        super().__init__(init=(n, None, np.dtype(A.dtype)))
        c0 = np.zeros(n, dtype=A.dtype) if c0 is None else np.asarray(c0)
        c1 = np.zeros(n, dtype=A.dtype) if c1 is None else np.asarray(c1)
        self._makeAttributeAndRegister('A', 'c0', 'c1', 'w', localVars=locals(), readOnly=True)
        self.n = n
        self.work_counters['rhs'] = _Counter()
        self.work_counters['solves'] = _Counter()

    def g(self, t):
        return forcing(self.c0, self.c1, self.w, t)

    def eval_f(self, u, t):
        f = self.f_init
        f[:] = self.A @ np.asarray(u) + self.g(t)
        self.work_counters['rhs']()
        return f

    def solve_system(self, rhs, factor, u0, t):
        me = self.u_init
        me[:] = np.linalg.solve(np.eye(self.n) - factor * self.A, np.asarray(rhs) + factor * self.g(t))
        self.work_counters['solves']()
        return me

    def u_exact(self, t, u_init=None, t_init=None):
        me = self.u_init
        me[:] = 1.0
        return me


class DenseIMEX(DenseLinear):
    """u' = A u (implicit) + B u + g(t) (explicit)."""

    dtype_f = imex_mesh

    def __init__(self, A=None, B=None, c0=None, c1=None, w=1.0):
        super().__init__(A=A, c0=c0, c1=c1, w=w)
        self._makeAttributeAndRegister('B', localVars=locals(), readOnly=True)

    def eval_f(self, u, t):
        f = self.f_init
        f.impl[:] = self.A @ np.asarray(u)
        f.expl[:] = self.B @ np.asarray(u) + self.g(t)
        self.work_counters['rhs']()
        return f

    def solve_system(self, rhs, factor, u0, t):
        me = self.u_init
        me[:] = np.linalg.solve(np.eye(self.n) - factor * self.A, np.asarray(rhs))
        self.work_counters['solves']()
        return me


class DenseTwoComp(DenseLinear):
    """u' = A u + g(t) (comp1) + B u (comp2), both implicit (multi_implicit sweeper)."""

    dtype_f = comp2_mesh

    def __init__(self, A=None, B=None, c0=None, c1=None, w=1.0):
        super().__init__(A=A, c0=c0, c1=c1, w=w)
        self._makeAttributeAndRegister('B', localVars=locals(), readOnly=True)

    def eval_f(self, u, t):
        f = self.f_init
        f.comp1[:] = self.A @ np.asarray(u) + self.g(t)
        f.comp2[:] = self.B @ np.asarray(u)
        self.work_counters['rhs']()
        return f

    def solve_system_1(self, rhs, factor, u0, t):
        return DenseLinear.solve_system(self, rhs, factor, u0, t)

    def solve_system_2(self, rhs, factor, u0, t):
        me = self.u_init
        me[:] = np.linalg.solve(np.eye(self.n) - factor * self.B, np.asarray(rhs))
        self.work_counters['solves']()
        return me


class DenseMass(DenseIMEX):
    """Mass-matrix form  Mm u' = A u + B u + g(t)  for imex_1st_order_mass:
    solve_system solves (Mm - factor*A) u = rhs, apply_mass_matrix returns Mm u."""

    fix_bc_for_residual = False

    def __init__(self, A=None, B=None, Mm=None, c0=None, c1=None, w=1.0):
        super().__init__(A=A, B=B, c0=c0, c1=c1, w=w)
        self._makeAttributeAndRegister('Mm', localVars=locals(), readOnly=True)

    def solve_system(self, rhs, factor, u0, t):
        me = self.u_init
        me[:] = np.linalg.solve(np.asarray(self.Mm) - factor * self.A, np.asarray(rhs))
        self.work_counters['solves']()
        return me

    def apply_mass_matrix(self, u):
        me = self.u_init
        me[:] = np.asarray(self.Mm) @ np.asarray(u)
        return me


class _Counter:
    def __init__(self):
        self.niter = 0

    def __call__(self, *a, **k):
        self.niter += 1

    def decrement(self):
        self.niter -= 1

    def __str__(self):
        return f'{self.niter}'


from pySDC.core.space_transfer import SpaceTransfer  # noqa: E402


class DenseGalerkinTransfer(SpaceTransfer):
    """Space transfer between dense workload problems of sizes nf >= nc: prolong = P, restrict = P^T, project = pinv(P)
    (P seeded by the sizes; identity when the sizes agree).  Workload, not SUT: base_transfer_mass needs restrict/prolong/project."""

    def __init__(self, fine_prob, coarse_prob, params):
        super().__init__(fine_prob, coarse_prob, params)
        nf, nc = int(np.prod(np.asarray(fine_prob.u_init).shape)), int(np.prod(np.asarray(coarse_prob.u_init).shape))
        if nf == nc:
            self.P = np.eye(nf)
        else:
            g = np.random.default_rng(1000 * nf + nc)
            self.P = np.zeros((nf, nc))
            for i in range(nf):
                self.P[i, min(nc - 1, i * nc // nf)] = 1.0
            self.P += 0.2 * g.standard_normal((nf, nc))
        self.Pinv = np.linalg.pinv(self.P)

    def _apply(self, Mx, X, prob):
        a = np.asarray(X)
        if a.ndim == 2 and a.shape[0] == 2 and type(X).__name__ == 'imex_mesh':
            out = prob.dtype_f(prob.init)
            out.impl[:] = Mx @ a[0]
            out.expl[:] = Mx @ a[1]
            return out
        out = prob.dtype_u(prob.init)
        out[:] = Mx @ a
        return out

    def restrict(self, F):
        return self._apply(self.P.T, F, self.coarse_prob)

    def project(self, F):
        return self._apply(self.Pinv, F, self.coarse_prob)

    def prolong(self, G):
        return self._apply(self.P, G, self.fine_prob)


def make_dense_dae():
    """class factory (the DAE project is imported lazily): semi-explicit linear index-1 DAE with n differential and n algebraic
    unknowns   y' = A11 y + A12 z + g1(t),   0 = A21 y + A22 z + g2(t)   written in pySDC's fully implicit form F(u, u', t) = 0"""
    from pySDC.projects.DAE.misc.problemDAE import ProblemDAE

    class DenseLinearDAE(ProblemDAE):
        def __init__(self, A11=None, A12=None, A21=None, A22=None, c1=None, c2=None, w=1.0, newton_tol=1e-13):
            n = np.asarray(A11).shape[0]
            super().__init__(nvars=n, newton_tol=newton_tol)
            self._makeAttributeAndRegister('A11', 'A12', 'A21', 'A22', 'c1', 'c2', 'w', localVars=locals(), readOnly=True)

        def g1(self, t):
            return np.asarray(self.c1) * np.sin(self.w * t)

        def g2(self, t):
            return np.asarray(self.c2) * np.cos(self.w * t)

        def dg2(self, t):
            return -self.w * np.asarray(self.c2) * np.sin(self.w * t)

        def eval_f(self, u, du, t):
            f = self.dtype_f(self.init)
            f.diff[:] = np.asarray(du.diff) - (self.A11 @ np.asarray(u.diff) + self.A12 @ np.asarray(u.alg) + self.g1(t))
            f.alg[:] = self.A21 @ np.asarray(u.diff) + self.A22 @ np.asarray(u.alg) + self.g2(t)
            self.work_counters['rhs']()
            return f

        def consistent(self, y, t):
            """(u, du) on the constraint manifold for differential part y at time t"""
            u, du = self.dtype_u(self.init), self.dtype_u(self.init)
            z = -np.linalg.solve(self.A22, self.A21 @ y + self.g2(t))
            yp = self.A11 @ y + self.A12 @ z + self.g1(t)
            zp = -np.linalg.solve(self.A22, self.A21 @ yp + self.dg2(t))
            u.diff[:], u.alg[:], du.diff[:], du.alg[:] = y, z, yp, zp
            return u, du

        def u_exact(self, t):
            return self.consistent(np.ones(self.nvars), t)[0]

        def du_exact(self, t):
            return self.consistent(np.ones(self.nvars), t)[1]

    return DenseLinearDAE
