"""Simulated mpi4py (only put on sys.path by the C08 check).  See MPI.py."""
