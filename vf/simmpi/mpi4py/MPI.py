"""Simulated MPI: one Python thread per rank, a baton guarantees that exactly one thread runs at a time, every MPI call
is a scheduling point where a seeded scheduler picks the next runnable rank.  All events are logged; monitors for deadlock,
exactly-once matching, send-buffer stability and tag discipline run online / at the end of a launch.

Semantics (what the scheduler may choose, as MPI permits):
  * matching is non-overtaking per (communicator, source, destination, tag)
  * Issend completes only after its receive is matched; Isend is eager (completes at post, data copied at post) or
    rendezvous (completes at match, data copied at match) by scheduler choice; isend/send of Python objects are eager
  * a completed request may be reported by Test() late, but after at most K further Test calls it is reported (fairness)
  * collectives are rendezvous points over the communicator (every member must call them in the same order)
"""
import hashlib
import random
import threading

import numpy as np

SUM, MAX, MIN, LAND, LOR, PROD = 'SUM', 'MAX', 'MIN', 'LAND', 'LOR', 'PROD'
INT, DOUBLE, BOOL, COMPLEX = 'INT', 'DOUBLE', 'BOOL', 'COMPLEX'
REQUEST_NULL = None
ANY_TAG = -1


class Deadlock(Exception):
    pass


class MonitorViolation(Exception):
    pass


def digest(a):
    return hashlib.blake2b(np.ascontiguousarray(np.asarray(a)).view(np.uint8).tobytes(), digest_size=8).hexdigest()


def _buf(b):
    if b is None:
        return None
    if isinstance(b, (list, tuple)):
        b = b[0]
    return b


class World:
    def __init__(self, n, seed=0, policy='random', test_fairness=3):
        self.n = n
        self.rng = random.Random(seed)
        self.policy = policy
        self.cv = threading.Condition()
        self.current = None
        self.blocked = {}
        self.done = set()
        self.log = []
        self.pending_sends = []
        self.pending_recvs = []
        self.coll = {}
        self.failed = None
        self.tl = threading.local()
        self.violations = []
        self.test_fairness = test_fairness
        self.steps = 0
        self.prio = {r: self.rng.random() for r in range(n)}
        self.prio_changes = sorted(self.rng.randint(1, 400) for _ in range(3))
        self.counts = dict(sends=0, recvs=0, matches=0, collectives=0, eager=0, rendezvous=0, tests=0, late_tests=0, cancels=0)
        self.max_steps = 400000

    # ------------------------------------------------------------------ scheduling
    def rank(self):
        return self.tl.rank

    def yield_(self, pred=None):
        me = self.rank()
        with self.cv:
            if pred is not None and not pred():
                self.blocked[me] = pred
            self._pick_next()
            while self.current != me:
                if self.failed:
                    raise self.failed
                self.cv.wait()
            if self.failed:
                raise self.failed

    def _pick_next(self):
        self.steps += 1
        if self.steps > self.max_steps and self.failed is None:
            self.failed = Deadlock(f'scheduler step bound {self.max_steps} exceeded (logical livelock bound, not wall clock)')
            self.current = None
            self.cv.notify_all()
            return
        for r, p in list(self.blocked.items()):
            if p():
                del self.blocked[r]
        runnable = [r for r in range(self.n) if r not in self.done and r not in self.blocked]
        if not runnable:
            if len(self.done) < self.n and self.failed is None:
                self.failed = Deadlock(f'deadlock: ranks {sorted(self.blocked)} blocked, none runnable; unmatched sends {[(s["src_w"], s["dest_w"], s["tag"]) for s in self.pending_sends]}, '
                                       f'unmatched recvs {[(r_["source_w"], r_["me_w"], r_["tag"]) for r_ in self.pending_recvs]}; open collectives {[(k[1], sorted(v)) for k, v in self.coll.items() if not v.get("_closed")][:4]}; log tail {self.log[-8:]}')
            self.current = None
        else:
            p = self.policy
            if p == 'random':
                self.current = self.rng.choice(runnable)
            elif p == 'roundrobin':
                last = self.current if self.current is not None else -1
                self.current = min(runnable, key=lambda r: (r - last - 1) % self.n)
            elif p == 'pct':
                if self.prio_changes and self.steps >= self.prio_changes[0]:
                    self.prio_changes.pop(0)
                    victim = max(runnable, key=lambda r: self.prio[r])
                    self.prio[victim] = -self.rng.random()
                self.current = max(runnable, key=lambda r: self.prio[r])
            elif p.startswith('starve'):
                v = int(p.split(':')[1]) % self.n
                others = [r for r in runnable if r != v]
                self.current = self.rng.choice(others) if others else v
            elif p == 'latest':
                self.current = max(runnable)
            elif p == 'earliest':
                self.current = min(runnable)
            else:
                self.current = self.rng.choice(runnable)
        self.cv.notify_all()

    def finish(self):
        with self.cv:
            self.done.add(self.rank())
            self._pick_next()

    def violate(self, what):
        self.violations.append(what)

    # ------------------------------------------------------------------ matching
    def try_match(self):
        progress = True
        while progress:
            progress = False
            for r in list(self.pending_recvs):
                if r['req'].cancelled:
                    self.pending_recvs.remove(r)
                    continue
                # non-overtaking: the first posted matching send
                for s in self.pending_sends:
                    if s['req'].cancelled and not s['copied']:
                        continue
                    if s['cid'] == r['cid'] and s['dest'] == r['me'] and s['src'] == r['source'] and (s['tag'] == r['tag'] or r['tag'] == ANY_TAG):
                        if not s['copied']:
                            if s['digest'] is not None and digest(s['buf']) != s['digest']:
                                self.violate(f'send buffer of rank {s["src_w"]} (tag {s["tag"]}, dest {s["dest_w"]}) was modified between posting the non-blocking send and its completion')
                            data = np.array(np.asarray(s['buf']), copy=True) if s['isbuf'] else s['buf']
                        else:
                            data = s['data']
                        r['setter'](data)
                        r['req']._complete(self)
                        s['req']._complete(self)
                        s['matched'] = True
                        self.pending_recvs.remove(r)
                        self.pending_sends.remove(s)
                        self.counts['matches'] += 1
                        self.log.append(('match', s['src_w'], r['me_w'], s['tag'], s['cid']))
                        progress = True
                        break


class Request:
    def __init__(self, world, kind):
        self.world = world
        self.kind = kind
        self.complete = False
        self.cancelled = False
        self.tests_since_complete = 0
        self.hide = 0

    def _complete(self, world):
        self.complete = True
        self.hide = world.rng.randint(0, world.test_fairness)

    def Test(self):
        w = self.world
        w.counts['tests'] += 1
        w.try_match()
        w.yield_()
        if self.complete:
            if self.tests_since_complete < self.hide:
                self.tests_since_complete += 1
                w.counts['late_tests'] += 1
                return False
            return True
        return False

    def Wait(self):
        self.world.try_match()
        self.world.yield_(lambda: self.complete or self.cancelled)
        return None

    wait = Wait
    test = Test

    def Cancel(self):
        if not self.complete:
            self.cancelled = True
            self.world.counts['cancels'] += 1
            self.world.log.append(('cancel', self.world.rank(), self.kind))

    def Free(self):
        pass


def _reduce(v, op):
    if op == SUM:
        out = v[0]
        for x in v[1:]:
            out = out + x
        return out
    if op == PROD:
        out = v[0]
        for x in v[1:]:
            out = out * x
        return out
    if op == MAX:
        return max(v) if not isinstance(v[0], np.ndarray) else np.maximum.reduce(v)
    if op == MIN:
        return min(v) if not isinstance(v[0], np.ndarray) else np.minimum.reduce(v)
    if op == LAND:
        return all(v) if not isinstance(v[0], np.ndarray) else np.logical_and.reduce(v)
    if op == LOR:
        return any(v) if not isinstance(v[0], np.ndarray) else np.logical_or.reduce(v)
    raise NotImplementedError(op)


class Comm:
    _next_cid = [0]

    def __init__(self, world, members, cid=None):
        self.world = world
        self.members = list(members)
        if cid is None:
            Comm._next_cid[0] += 1
            cid = Comm._next_cid[0]
        self.cid = cid
        self.freed = set()

    @property
    def rank(self):
        return self.members.index(self.world.rank())

    @property
    def size(self):
        return len(self.members)

    def Get_rank(self):
        return self.rank

    def Get_size(self):
        return self.size

    def Free(self):
        w = self.world
        me = self.rank
        for s in w.pending_sends:
            if s['cid'] == self.cid and s['src'] == me and not s['req'].cancelled and not s['copied']:
                w.violate(f'communicator freed by rank {w.rank()} while its send (tag {s["tag"]} to {s["dest_w"]}) is still unmatched')
        for r in w.pending_recvs:
            if r['cid'] == self.cid and r['me'] == me and not r['req'].cancelled:
                w.violate(f'communicator freed by rank {w.rank()} while its receive (tag {r["tag"]} from {r["source_w"]}) is still unmatched')
        self.freed.add(me)

    # ----------------------------------------------------------- collectives
    def _collective(self, name, contrib):
        w = self.world
        seqs = w.tl.__dict__.setdefault('collseq', {})
        k = seqs.get(self.cid, 0)
        seqs[self.cid] = k + 1
        key = (self.cid, k)
        slot = w.coll.setdefault(key, {'_name': name})
        if slot['_name'] != name:
            w.violate(f'collective mismatch on communicator {self.cid}: rank {w.rank()} calls {name} while others call {slot["_name"]} (call #{k})')
        slot[self.rank] = contrib
        w.counts['collectives'] += 1
        w.log.append(('coll', name, w.rank(), self.cid, k))
        w.yield_(lambda: sum(1 for x in slot if isinstance(x, int)) == self.size)
        slot['_closed'] = True
        return slot

    def Barrier(self):
        self._collective('Barrier', None)

    barrier = Barrier

    def allgather(self, obj):
        s = self._collective('allgather', obj)
        return [s[i] for i in range(self.size)]

    def gather(self, obj, root=0):
        s = self._collective('gather', obj)
        return [s[i] for i in range(self.size)] if self.rank == root else None

    def bcast(self, obj, root=0):
        s = self._collective('bcast', obj)
        return s[root]

    def allreduce(self, sendobj, op=SUM):
        s = self._collective('allreduce', sendobj)
        return _reduce([s[i] for i in range(self.size)], op)

    def reduce(self, sendobj, op=SUM, root=0):
        s = self._collective('reduce', sendobj)
        return _reduce([s[i] for i in range(self.size)], op) if self.rank == root else None

    def Bcast(self, buf, root=0):
        b = _buf(buf)
        s = self._collective('Bcast', np.array(np.asarray(b), copy=True) if self.rank == root else None)
        if self.rank != root:
            np.asarray(b)[...] = s[root]

    def Ibcast(self, buf, root=0):
        self.Bcast(buf, root)
        req = Request(self.world, 'ibcast')
        req.complete = True
        return req

    def Reduce(self, sendbuf, recvbuf, root=0, op=SUM):
        s = self._collective('Reduce', np.array(np.asarray(_buf(sendbuf)), copy=True))
        if self.rank == root:
            np.asarray(_buf(recvbuf))[...] = _reduce([s[i] for i in range(self.size)], op)

    def Allreduce(self, sendbuf, recvbuf, op=SUM):
        s = self._collective('Allreduce', np.array(np.asarray(_buf(sendbuf)), copy=True))
        np.asarray(_buf(recvbuf))[...] = _reduce([s[i] for i in range(self.size)], op)

    def Split(self, color=0, key=0):
        s = self._collective('Split', (int(color), key, self.world.rank()))
        if '_result' not in s:
            groups = {}
            for i in range(self.size):
                c, k, wr = s[i]
                groups.setdefault(c, []).append((k, i, wr))
            s['_result'] = {c: Intracomm(self.world, [wr for _, _, wr in sorted(g)]) for c, g in groups.items()}
        return s['_result'][int(color)]

    def Dup(self):
        s = self._collective('Dup', None)
        if '_result' not in s:
            s['_result'] = Intracomm(self.world, self.members)
        return s['_result']

    # ----------------------------------------------------------- point to point
    def _post_send(self, b, dest, tag, sync, isbuf):
        w = self.world
        req = Request(w, 'send')
        e = dict(cid=self.cid, src=self.rank, dest=dest, tag=tag, req=req, buf=b, copied=False, digest=None, isbuf=isbuf, src_w=w.rank(), dest_w=self.members[dest], matched=False)
        w.counts['sends'] += 1
        if not isbuf:
            e['data'] = b
            e['copied'] = True
            req._complete(w)
            req.hide = 0
        elif not sync and w.rng.random() < 0.5:
            e['data'] = np.array(np.asarray(b), copy=True)
            e['copied'] = True
            req._complete(w)
            w.counts['eager'] += 1
        else:
            e['digest'] = digest(b)
            w.counts['rendezvous'] += 1
        w.pending_sends.append(e)
        w.log.append(('post_send', w.rank(), self.members[dest], tag, 'sync' if sync else ('eager' if e['copied'] else 'rdv'), self.cid))
        w.try_match()
        w.yield_()
        return req

    def _post_recv(self, setter, source, tag):
        w = self.world
        req = Request(w, 'recv')
        w.counts['recvs'] += 1
        w.pending_recvs.append(dict(cid=self.cid, me=self.rank, source=source, tag=tag, req=req, setter=setter, me_w=w.rank(), source_w=self.members[source]))
        w.log.append(('post_recv', w.rank(), self.members[source], tag, self.cid))
        w.try_match()
        w.yield_()
        return req

    def Issend(self, buf, dest, tag=0):
        return self._post_send(_buf(buf), dest, tag, True, True)

    def Isend(self, buf, dest, tag=0):
        return self._post_send(_buf(buf), dest, tag, False, True)

    def Send(self, buf, dest, tag=0):
        self._post_send(_buf(buf), dest, tag, False, True).Wait()

    def Ssend(self, buf, dest, tag=0):
        self._post_send(_buf(buf), dest, tag, True, True).Wait()

    def Irecv(self, buf, source, tag=0):
        b = _buf(buf)

        def setter(d):
            np.asarray(b)[...] = d

        return self._post_recv(setter, source, tag)

    def Recv(self, buf, source, tag=0, status=None):
        self.Irecv(buf, source, tag).Wait()

    def isend(self, obj, dest, tag=0):
        return self._post_send(obj, dest, tag, False, False)

    def send(self, obj, dest, tag=0):
        self.isend(obj, dest, tag).Wait()

    def recv(self, source=0, tag=0, buf=None, status=None):
        box = []
        self._post_recv(box.append, source, tag).Wait()
        return box[0]

    def irecv(self, source=0, tag=0):
        raise NotImplementedError('object irecv is not used by pySDC')


class Intracomm(Comm):
    pass


_WORLD = None


class _WorldProxy(Intracomm):
    def __init__(self):
        pass

    def __getattr__(self, k):
        return getattr(_WORLD.comm_world, k)

    @property
    def rank(self):
        return _WORLD.comm_world.rank

    @property
    def size(self):
        return _WORLD.comm_world.size


COMM_WORLD = _WorldProxy()


def launch(n, fn, seed=0, policy='random', timeout=120):
    """run fn(rank) on n rank-threads under the scheduler; returns (results, errors, world)"""
    global _WORLD
    w = World(n, seed, policy)
    _WORLD = w
    w.comm_world = Intracomm(w, range(n))
    res = [None] * n
    err = [None] * n

    def body(r):
        w.tl.rank = r
        try:
            with w.cv:
                while w.current != r:
                    if w.failed:
                        raise w.failed
                    w.cv.wait()
            res[r] = fn(r)
        except BaseException as e:  # noqa
            err[r] = e
            with w.cv:
                if w.failed is None and not isinstance(e, Deadlock):
                    w.failed = e
        finally:
            w.finish()

    ths = [threading.Thread(target=body, args=(r,), daemon=True) for r in range(n)]
    for t in ths:
        t.start()
    with w.cv:
        w._pick_next()
    for t in ths:
        t.join(timeout)
    w.hung = any(t.is_alive() for t in ths)
    # end-of-run monitor: exactly-once matching
    for s in w.pending_sends:
        if not s['req'].cancelled and not (s['copied'] and not s['isbuf']):
            w.violate(f'send never matched: rank {s["src_w"]} -> {s["dest_w"]} tag {s["tag"]} (comm {s["cid"]})')
        elif not s['req'].cancelled and s['copied'] and not s['isbuf']:
            w.violate(f'object send never received: rank {s["src_w"]} -> {s["dest_w"]} tag {s["tag"]}')
    for r_ in w.pending_recvs:
        if not r_['req'].cancelled:
            w.violate(f'receive never matched: rank {r_["me_w"]} from {r_["source_w"]} tag {r_["tag"]} (comm {r_["cid"]})')
    for key, slot in w.coll.items():
        if not slot.get('_closed') and w.failed is None:
            w.violate(f'collective {slot["_name"]} #{key[1]} on communicator {key[0]} was entered by only {sorted(x for x in slot if isinstance(x, int))}')
    return res, err, w
