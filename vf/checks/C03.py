"""C03 — the reported residual is the true collocation defect; stopping is sound.

(a) at every post_sweep / post_iteration / post_step callback the level's status.residual is recomputed from the node
    values the level holds at that moment (qmat Q, operator from a twin problem) in the configured residual type;
(b) stopping rules are judged on the callback trace plus a count of real update_nodes calls per step;
(c) scripted residual sequences (ResidualInjector just before CheckConvergence) over {above, equal, below}^(maxiter+1),
    exhaustive for small maxiter, must stop at the first index the stated rule allows.
"""

import itertools

import numpy as np

from vf.core import Result

PROPERTY = 'C03'
LEVEL = 'exploration'
TECHNIQUE = 'trace-hook invariant (recomputed defect) + scripted-residual fault injection with an automaton oracle for the stop index'
RULE = (
    'kind=run: one controller run from the C01 configuration space with random (restol, maxiter) incl. restol met at iteration 0 and never; '
    'kind=script: one scripted residual history per slot over {2*restol, restol, restol/2}, all histories for maxiter<=4 (quick) / <=6 (thorough) on 1 step, '
    'random ones on 2-3 step blocks; non-trivial = the defect oracle ran on >=1 callback (run) or the stop-index oracle ran (script); distinct by configuration / script'
)
ASSUMPTIONS = [
    'linear problems; operator extracted from a twin problem; qmat trusted for Q',
    'defect tolerance 1e-12*(|u| + dt*|Q|*|F| + |tau|) absolute (divided by |u0| for relative types)',
    'RK, multistep and DAE sweepers define the residual away / differently and are excluded',
]
EXHAUSTIVE = {'quick': False, 'thorough': False}


def cases(tier, seed):
    from vf.gen import gen_run_case

    rng = np.random.default_rng(seed + 303)
    cs = []
    n = 220 if tier == 'quick' else 3500
    for i in range(n):
        c = gen_run_case(rng, max_procs=4)
        c['kind'] = 'run'
        mode = i % 5
        if mode == 0:
            c['restol'], c['maxiter'] = float(10 ** rng.uniform(0, 2)), int(rng.integers(1, 6))  # met at iteration 0
        elif mode == 1:
            c['restol'], c['maxiter'] = -1.0, int(rng.integers(1, 7))  # never
        elif mode == 2:
            c['restol'], c['maxiter'] = float(10 ** rng.uniform(-6, -2)), int(rng.integers(1, 5))
        else:
            c['restol'], c['maxiter'] = float(10 ** rng.uniform(-12, -6)), int(rng.integers(2, 60))
        c['all_to_done'] = bool(rng.random() < 0.15)
        c['_cost'] = c['num_procs'] * c['nlev'] * c['nsteps']
        cs.append(c)
    mmax = 4 if tier == 'quick' else 6
    for maxiter in range(1, mmax + 1):
        for seq in itertools.product((2.0, 1.0, 0.5), repeat=maxiter + 1):
            cs.append(dict(kind='script', procs=1, maxiter=maxiter, script=[list(seq)], nlev=1 + (len(cs) % 2), jac=True, _cost=0.3))
    for i in range(150 if tier == 'quick' else 3000):
        procs = int(rng.integers(2, 4))
        maxiter = int(rng.integers(1, 7))
        script = [[float(rng.choice([2.0, 1.0, 0.5, 5.0, 0.01])) for _ in range(maxiter + 1)] for _ in range(procs)]
        cs.append(dict(kind='script', procs=procs, maxiter=maxiter, script=script, nlev=int(rng.integers(1, 3)), jac=bool(rng.random() < 0.5), _cost=0.5))
    # forced continuation (the flag Adaptivity(avoid_restarts=True) raises): scripted (slot, iteration) positions
    for i in range(60 if tier == 'quick' else 1500):
        procs = int(rng.integers(1, 4))
        maxiter = int(rng.integers(1, 5))
        nf = int(rng.integers(1, 4))
        force = set()
        for _ in range(nf):
            p = int(rng.integers(0, procs))
            k = maxiter + len([1 for (pp, kk) in force if pp == p and kk >= maxiter]) if rng.random() < 0.6 else int(rng.integers(0, maxiter + 2))
            force.add((p, k))
        L = maxiter + nf + 3
        script = [[float(rng.choice([2.0, 1.0, 0.5, 5.0, 0.01, 3.0, 3.0])) for _ in range(L)] for _ in range(procs)]
        cs.append(dict(kind='script', procs=procs, maxiter=maxiter, script=script, force=sorted(force), nlev=int(rng.integers(1, 3)), jac=bool(rng.random() < 0.5), _cost=0.6))
    # several blocks with forced stops (force_done) raised at scripted (block, step, iteration) positions
    for i in range(60 if tier == 'quick' else 1500):
        procs, maxiter, nblocks = int(rng.integers(1, 4)), int(rng.integers(2, 5)), int(rng.integers(2, 4))
        script = [[[float(rng.choice([2.0, 3.0, 0.5, 5.0, 3.0])) for _ in range(maxiter + 1)] for _ in range(procs)] for _ in range(nblocks)]
        fd = {(int(rng.integers(0, nblocks - 1)), int(rng.integers(0, procs)), int(rng.integers(0, maxiter))) for _ in range(int(rng.integers(1, 3)))}
        cs.append(dict(kind='script_blocks', procs=procs, maxiter=maxiter, nblocks=nblocks, script=script, force_done=sorted(fd), jac=bool(rng.random() < 0.5), _cost=0.6))
    # mass-matrix sweeper on 2-3 levels (its residual is written out separately for the finest and the coarser levels)
    for i in range(40 if tier == 'quick' else 800):
        nlev = 2 + (i % 2)
        sizes = [int(x) for x in sorted(rng.integers(2, 7, size=3), reverse=True)]
        cs.append(dict(kind='mass', nlev=nlev, Ms=[int(x) for x in sorted(rng.integers(2, 5, size=3), reverse=True)], sizes=sizes, qt=['RADAU-RIGHT', 'LOBATTO'][i % 2], procs=int(rng.integers(1, 3)),
                       maxiter=int(rng.integers(1, 4)), dtexp=float(rng.uniform(-2, -0.5)), seed=int(rng.integers(0, 2**31)), _cost=2))
    return cs


def _wrap_update_counts(ctrl, counts):
    """instance wrappers: count real update_nodes calls per (slot, level)"""
    for S in ctrl.MS:
        for li, L in enumerate(S.levels):
            orig = L.sweep.update_nodes

            def wrapped(orig=orig, S=S, li=li):
                counts[(S.status.slot, li)] = counts.get((S.status.slot, li), 0) + 1
                counts['total'] = counts.get('total', 0) + 1
                return orig()

            L.sweep.update_nodes = wrapped


def run_run(case, r):
    from pySDC.helpers.stats_helper import get_sorted

    from vf.checks.C01 import config_key, contraction_dt, twin_problem
    from vf.gen import build_controller, description_for, linearize
    from vf.mon.tracehook import find_hook, make_trace_hook
    from vf.ref import sdc as ref

    r.key = config_key(case) + f"/{case['restol']:.1e}/{case['maxiter']}"
    case = dict(case)
    try:
        gens = [ref.coll(M, case['nt'], case['qt']) for M in case['Ms']]
    except Exception:  # noqa
        r.count('rule_rejected_by_qmat')
        r.check(True, 'noop', '')
        return
    desc0 = description_for(case)
    P = twin_problem(desc0)
    A, B, g = linearize(P, 0.0)
    dt = contraction_dt(case, A, B, gens[0])
    if dt is None:
        r.count('no_contraction_found')
        r.check(True, 'noop', '')
        return
    case['dt'] = dt
    counts = {}
    snaps = []

    def extra(ev, step, level_number):
        ev['upd'] = counts.get((step.status.slot, 0), 0)

    H = make_trace_hook(arrays={'post_sweep', 'post_iteration', 'post_step'}, extra=extra)
    try:
        ctrl, desc = build_controller(case, hooks=[H])
    except Exception as e:  # noqa
        r.count('rejected_at_construction')
        r.check(True, 'noop', '')
        return
    _wrap_update_counts(ctrl, counts)
    Pf = ctrl.MS[0].levels[0].prob
    rng = np.random.default_rng(case['pseed'] + 7)
    u0 = Pf.u_init
    shape = np.asarray(u0).shape
    u0[:] = rng.standard_normal(shape) + (1j * rng.standard_normal(shape) if np.iscomplexobj(np.asarray(u0)) else 0)
    t0 = case['t0']
    try:
        with np.errstate(invalid='raise', over='raise'):
            uend, stats = ctrl.run(u0, t0, t0 + (case['nsteps'] - 0.5) * dt)
    except ZeroDivisionError as e:
        import traceback

        tb = traceback.format_exc()
        mech = 'relative-residual-divides-by-zero-start-value' if ('compute_residual' in tb and case['residual_type'].endswith('rel')) else None
        r.check(False, 'run-completes', f'{r.key}: run raised ZeroDivisionError: {e}', mech=mech)
        return
    hook = find_hook(ctrl, H)
    Afull = A + B
    rtype = case['residual_type']
    Qs = [np.array(gg.Q) for gg in gens]
    nodes0 = np.array(gens[0].nodes)
    # ---------------- (a) defect
    upd_at_start = {}
    for ev in hook.events:
        if ev['cb'] == 'pre_step':
            upd_at_start[ev['slot']] = ev['upd']
        if ev['cb'] not in ('post_sweep', 'post_iteration', 'post_step') or 'arr' not in ev:
            continue
        lvl = ev['lvl'] or 0
        a = ev['arr'][0]
        U = np.array([np.asarray(x).reshape(-1) for x in a['u']])
        tau = None
        if any(t is not None for t in a['tau']):
            tau = np.array([np.zeros_like(U[0]) if t is None else np.asarray(t).reshape(-1) for t in a['tau']])
        swept = ev['upd'] - upd_at_start.get(ev['slot'], 0) >= 1
        if lvl == 0 and swept:
            G = np.array([g(a['time'] + a['dt'] * c) for c in nodes0])
            F = (Afull @ U[1:].T).T + G
            r.count('defect_with_true_F')
        else:
            # before the first sweep of a step the level holds an initial *guess* for f as well (initial_guess = zero/random/copy);
            # coarse levels: their own operator is not the twin's; use the right-hand sides the level stores
            F = np.array([_fullf(x) for x in a['f'][1:]])
        Q = Qs[lvl]
        d = ref.defect(Q, a['dt'], U[0], U[1:], F, tau)
        exp = ref.residual_norm(d, U[0], rtype)
        got = a['residual']
        mag = float(np.max(np.abs(U))) + a['dt'] * float(np.max(np.sum(np.abs(Q), axis=1))) * float(np.max(np.abs(F))) + (float(np.max(np.abs(tau))) if tau is not None else 0.0)
        tol = 1e-12 * mag / (float(np.max(np.abs(U[0]))) if rtype.endswith('rel') else 1.0) + 1e-300
        ok = got is not None and abs(got - exp) <= tol
        r.check(ok, 'residual-is-defect', lambda: f'{r.key}: at {ev["cb"]} (slot {ev["slot"]}, level {lvl}, iter {ev["iter"]}) status.residual={got} but the {rtype} norm of u0+dt*Q*F(U)+tau-U on the held values is {exp} (tol {tol:.1e})', cb=ev['cb'], level=lvl)
        r.observe('defect_cb', f'{ev["cb"]}/L{lvl}')
        r.nontrivial = True
    # ---------------- (b) stopping, from the trace
    maxiter, restol = case['maxiter'], case['restol']
    attempts = {}
    for ev in hook.events:
        if ev.get('slot') is None:
            continue
        if ev['cb'] == 'pre_step':
            attempts[ev['slot']] = dict(pre_it=0, post_it=0, upd0=ev['upd'], sweeps=0)
        elif ev['cb'] == 'pre_iteration':
            attempts[ev['slot']]['pre_it'] += 1
            r.check(ev['iter'] <= maxiter, 'iter-within-budget', f'{r.key}: iteration counter {ev["iter"]} exceeds maxiter {maxiter} without force_continue')
        elif ev['cb'] == 'post_iteration':
            attempts[ev['slot']]['post_it'] += 1
        elif ev['cb'] == 'post_sweep' and (ev['lvl'] or 0) == 0:
            attempts[ev['slot']]['sweeps'] += 1
        elif ev['cb'] == 'post_step':
            at = attempts[ev['slot']]
            niter = ev['iter']
            r.check(niter == at['pre_it'] == at['post_it'], 'niter-is-iterations-performed', f'{r.key}: slot {ev["slot"]} t={ev["time"]}: status.iter={niter}, pre_iteration callbacks={at["pre_it"]}, post_iteration={at["post_it"]}')
            r.check(niter <= maxiter, 'niter-within-budget', f'{r.key}: niter {niter} > maxiter {maxiter}')
            fine_updates = ev['upd'] - at['upd0']
            if niter < maxiter and not ev.get('force_done') and not case.get('all_to_done'):
                res = ev['residual']
                r.check(res is not None and res <= restol, 'early-stop-needs-residual', f'{r.key}: step stopped after {niter} < {maxiter} iterations with residual {res} > restol {restol}')
                mech = 'stop-at-iteration-0-without-any-sweep' if (niter == 0 and fine_updates == 0) else None
                r.check(fine_updates >= 1, 'early-stop-needs-a-sweep', f'{r.key}: step at t={ev["time"]} declared finished by its residual ({res} <= {restol}) after {niter} iterations and {fine_updates} fine sweeps', mech=mech)
            if niter == maxiter and niter > 0:
                r.count('stopped_by_budget')
            r.observe('stop_kind', 'budget' if niter >= maxiter else ('iter0' if niter == 0 else 'residual'))
    logged = {round(t, 12): v for t, v in get_sorted(stats, type='niter', sortby='time')}
    for ev in hook.events:
        if ev['cb'] == 'post_step' and not ev.get('restart'):
            v = logged.get(round(ev['time'], 12))
            r.check(v == ev['iter'], 'logged-niter', f'{r.key}: logged niter {v} at t={ev["time"]} but the step performed {ev["iter"]} iterations')
    r.sample = dict(case={k: v for k, v in case.items() if not k.startswith('_')}, niter=[e['iter'] for e in hook.events if e['cb'] == 'post_step'])


def _fullf(f):
    a = np.asarray(f)
    return a.reshape(-1) if a.ndim == 1 else a.sum(axis=0).reshape(-1) if a.ndim == 2 and a.shape[0] == 2 else a.reshape(-1)


def run_script(case, r):
    from pySDC.helpers.stats_helper import get_sorted
    from pySDC.implementations.controller_classes.controller_nonMPI import controller_nonMPI
    from pySDC.implementations.problem_classes.HeatEquation_ND_FD import heatNd_unforced
    from pySDC.implementations.sweeper_classes.generic_implicit import generic_implicit
    from pySDC.implementations.transfer_classes.TransferMesh import mesh_to_mesh

    from vf.mon.probes import ContinueInjector, ResidualInjector
    from vf.mon.tracehook import find_hook, make_trace_hook

    procs, maxiter, nlev = case['procs'], case['maxiter'], case['nlev']
    restol = 1e-3
    script = {p: [x * restol for x in case['script'][p]] for p in range(procs)}
    force = {tuple(x) for x in case.get('force', [])}
    r.key = f'script/{procs}/{maxiter}/{nlev}/{case["jac"]}/{case["script"]}/{sorted(force)}'
    box = dict(script=script, force_continue=force)
    counts = {}
    guard = maxiter + len(force) + 6

    class IterationGuard(Exception):
        pass

    def extra(ev, step, level_number):
        ev['upd'] = counts.get((step.status.slot, 0), 0)
        if step.status.iter > guard:
            raise IterationGuard(f'slot {step.status.slot} reached iteration {step.status.iter}')

    H = make_trace_hook(extra=extra)
    desc = dict(
        problem_class=heatNd_unforced, problem_params=dict(nvars=[7, 3][:nlev] if nlev > 1 else 7, nu=0.1, freq=1, bc='dirichlet-zero'),
        sweeper_class=generic_implicit, sweeper_params=dict(num_nodes=2, quad_type='RADAU-RIGHT', QI='LU'),
        level_params=dict(dt=0.05, restol=restol), step_params=dict(maxiter=maxiter), convergence_controllers={ResidualInjector: dict(box=box)},
    )
    if force:
        desc['convergence_controllers'][ContinueInjector] = dict(box=box)
    if nlev > 1:
        desc.update(space_transfer_class=mesh_to_mesh, space_transfer_params=dict(iorder=2, rorder=2))
    ctrl = controller_nonMPI(procs, dict(logger_level=50, dump_setup=False, hook_class=[H], mssdc_jac=case['jac']), desc)
    _wrap_update_counts(ctrl, counts)
    P = ctrl.MS[0].levels[0].prob
    u0 = P.u_exact(0.0)
    try:
        uend, stats = ctrl.run(u0, 0.0, procs * 0.05)
    except IterationGuard as e:
        r.check(False, 'iteration-budget', f'{r.key}: {e} with maxiter={maxiter} and continuation forced only at {sorted(force)}: the iteration counter exceeds the budget without being forced')
        return
    hook = find_hook(ctrl, H)
    # expected stop index per slot: first j >= stop of previous slot with (res[j] <= restol or j >= maxiter) and continuation not forced at (slot, j)
    stop_prev = 0
    exp = []
    for p in range(procs):
        j = stop_prev
        while not ((j >= maxiter or script[p][j] <= restol) and (p, j) not in force):
            j += 1
        exp.append(j)
        stop_prev = j
    if force:
        forced = set(box.get('forced', []))
        r.count('forced_continuations', len(forced))
        if any(exp[p] > maxiter for p in range(procs)):
            r.count('scripts_running_past_the_budget')
    got = {}
    upd = {}
    start_upd = {}
    for ev in hook.events:
        if ev['cb'] == 'pre_step':
            start_upd[ev['slot']] = ev['upd']
        if ev['cb'] == 'post_step':
            got[ev['slot']] = ev['iter']
            upd[ev['slot']] = ev['upd'] - start_upd[ev['slot']]
    for p in range(procs):
        zero_stop = exp[p] == 0 and maxiter > 0
        if zero_stop and got.get(p) == 0:
            # the stated rule asks for at least one sweep before a residual stop; the code stops at iteration 0
            r.check(upd.get(p, 0) >= 1, 'early-stop-needs-a-sweep', f'{r.key}: slot {p} stopped at iteration 0 on a scripted residual <= restol without any sweep', mech='stop-at-iteration-0-without-any-sweep')
        else:
            r.check(got.get(p) == exp[p], 'scripted-stop-index', f'{r.key}: slot {p} stopped after {got.get(p)} iterations, the rule gives {exp[p]} (script/restol {case["script"][p]}, maxiter {maxiter})')
    seen = box.get('seen', [])
    r.check(len(seen) >= procs, 'injector-reached', f'{r.key}: residual injector was called {len(seen)} times')
    logged = [v for _, v in get_sorted(stats, type='niter', sortby='time')]
    r.check(logged == [got[p] for p in range(procs)], 'logged-niter', f'{r.key}: logged niter {logged} vs performed {[got[p] for p in range(procs)]}')
    r.nontrivial = True
    r.observe('script_stop', str(exp))
    r.sample = dict(case={k: v for k, v in case.items() if not k.startswith('_')}, expected_stop=exp, observed=[got.get(p) for p in range(procs)])


def run_script_blocks(case, r):
    """several blocks on one controller: scripted residuals per (block, step, iteration) and forced stops (force_done) at scripted
    positions; a forced stop belongs to the step and block it was raised for"""
    from pySDC.helpers.stats_helper import get_sorted
    from pySDC.implementations.controller_classes.controller_nonMPI import controller_nonMPI
    from pySDC.implementations.problem_classes.TestEquation_0D import testequation0d
    from pySDC.implementations.sweeper_classes.generic_implicit import generic_implicit

    from vf.mon.probes import ForceDoneInjector, ResidualInjector
    from vf.mon.tracehook import find_hook, make_trace_hook

    procs, maxiter, nblocks = case['procs'], case['maxiter'], case['nblocks']
    restol = 1e-3
    scripts = case['script']  # [block][slot][iter] in units of restol
    fd = {tuple(x) for x in case['force_done']}
    r.key = f'blocks/{procs}/{maxiter}/{nblocks}/{case["jac"]}/{scripts}/{sorted(fd)}'
    box = dict(block=-1, force_done_at=fd)

    class BlockScript(dict):
        def get(self, slot, default=None):
            b = box['block']
            return [x * restol for x in scripts[b][slot]] if 0 <= b < nblocks else default

    box['script'] = BlockScript()
    H = make_trace_hook()
    dt = 0.05
    desc = dict(problem_class=testequation0d, problem_params=dict(lambdas=np.array([-1.0, -0.2 + 1j]), u0=1.0), sweeper_class=generic_implicit, sweeper_params=dict(num_nodes=2, quad_type='RADAU-RIGHT', QI='LU'),
                level_params=dict(dt=dt, restol=restol), step_params=dict(maxiter=maxiter), convergence_controllers={ResidualInjector: dict(box=box), ForceDoneInjector: dict(box=box)})
    ctrl = controller_nonMPI(procs, dict(logger_level=50, dump_setup=False, hook_class=[H], mssdc_jac=case['jac']), desc)
    orig_rb = ctrl.restart_block

    def restart_block(active_slots, time, u0_):
        box['block'] += 1
        return orig_rb(active_slots, time, u0_)

    ctrl.restart_block = restart_block
    P = ctrl.MS[0].levels[0].prob
    uend, stats = ctrl.run(P.u_exact(0.0), 0.0, (nblocks * procs - 0.5) * dt)
    hook = find_hook(ctrl, H)
    got = {}
    for ev in hook.events:
        if ev['cb'] == 'post_step':
            k = int(round(ev['time'] / dt))
            got[(k // procs, k % procs)] = ev['iter']
    for b in range(nblocks):
        stop_prev = 0
        for p in range(procs):
            forced = min([j for (bb, pp, j) in fd if bb == b and pp == p], default=None)
            j = stop_prev
            while not (j >= maxiter or scripts[b][p][j] <= 1.0 or (forced is not None and j >= forced)):
                j += 1
            stop_prev = j
            if j == 0 and got.get((b, p)) == 0 and not (forced == 0):
                r.check(False, 'early-stop-needs-a-sweep', f'{r.key}: block {b} slot {p} stopped at iteration 0 on a scripted residual <= restol without any sweep', mech='stop-at-iteration-0-without-any-sweep')
                continue
            r.check(got.get((b, p)) == j, 'scripted-stop-index', f'{r.key}: block {b} slot {p} stopped after {got.get((b, p))} iterations, the rule gives {j} (residuals/restol {scripts[b][p]}, maxiter {maxiter}, forced stops raised at {sorted(fd)})')
    logged = [v for _, v in get_sorted(stats, type='niter', sortby='time')]
    r.check(logged == [got.get((b, p)) for b in range(nblocks) for p in range(procs)], 'logged-niter', f'{r.key}: logged niter {logged} vs performed {[got.get((b, p)) for b in range(nblocks) for p in range(procs)]}')
    r.count('forced_stops', len(set(box.get('forced_done', []))))
    r.count('multi_block_scripts')
    r.nontrivial = True
    r.sample = dict(case={k: v for k, v in case.items() if not k.startswith('_')})


def run_mass(case, r):
    """imex_1st_order_mass + base_transfer_mass on a dense hierarchy: at every post_sweep / post_step the residual the level
    reports must be the norm of Mm(u0 - U_m) + dt (Q F)_m on the finest level and of u0 - Mm U_m + dt (Q F)_m + tau_m on the
    coarser ones (u0 of a coarse level is restricted with the mass matrix already applied), on the values the level holds"""
    from pySDC.implementations.controller_classes.controller_nonMPI import controller_nonMPI
    from pySDC.implementations.sweeper_classes.imex_1st_order_mass import imex_1st_order_mass
    from pySDC.implementations.transfer_classes.BaseTransfer_mass import base_transfer_mass

    from vf import harness_problems as hp
    from vf.levelkit import rand_matrix
    from vf.mon.tracehook import find_hook, make_trace_hook
    from vf.ref import sdc as ref

    rng = np.random.default_rng(case['seed'])
    nlev, Ms, sizes = case['nlev'], case['Ms'][: case['nlev']], case['sizes'][: case['nlev']]
    dt = 10 ** case['dtexp']
    As, Bs, Mms = [], [], []
    for n in sizes:
        As.append(rand_matrix(rng, n, 'stable', False))
        Bs.append(rand_matrix(rng, n, 'any', False, scale=0.3))
        X = rng.standard_normal((n, n))
        Mms.append(np.eye(n) + 0.3 * (X @ X.T) / n)
    r.key = f"mass/{nlev}/{Ms}/{sizes}/{case['qt']}/p{case['procs']}/k{case['maxiter']}"
    w = float(rng.uniform(0.5, 3))
    c0 = [rng.standard_normal(n) for n in sizes]
    desc = dict(problem_class=hp.DenseMass, problem_params=dict(A=As, B=Bs, Mm=Mms, c0=c0, c1=[c[::-1].copy() for c in c0], w=w), sweeper_class=imex_1st_order_mass,
                sweeper_params=dict(num_nodes=Ms, quad_type=case['qt'], QI='LU', QE='EE'), level_params=dict(dt=dt, restol=-1), step_params=dict(maxiter=case['maxiter']),
                space_transfer_class=hp.DenseGalerkinTransfer, space_transfer_params={}, base_transfer_class=base_transfer_mass, base_transfer_params=dict(finter=False))
    H = make_trace_hook(arrays={'post_sweep', 'post_step'})
    ctrl = controller_nonMPI(case['procs'], dict(logger_level=50, dump_setup=False, hook_class=[H]), desc)
    P = ctrl.MS[0].levels[0].prob
    u0 = P.u_init
    u0[:] = rng.standard_normal(sizes[0])
    ctrl.run(u0, 0.0, (2 * case['procs'] - 0.5) * dt)
    Qs = [np.array(ref.coll(M, 'LEGENDRE', case['qt']).Q) for M in Ms]
    for ev in find_hook(ctrl, H).events:
        if ev['cb'] not in ('post_sweep', 'post_step') or 'arr' not in ev:
            continue
        lvl = ev['lvl'] or 0
        a = ev['arr'][0]
        if a['residual'] is None:
            continue
        U = np.array([np.asarray(x).reshape(-1) for x in a['u']])
        F = np.array([_fullf(x) for x in a['f'][1:]])
        Mm = Mms[lvl]
        QF = a['dt'] * (Qs[lvl] @ F)
        if lvl == 0:
            d = (Mm @ (U[0][None, :] - U[1:]).T).T + QF
        else:
            d = U[0][None, :] - (Mm @ U[1:].T).T + QF
        have_tau = any(t is not None for t in a['tau'])
        if have_tau:
            d = d + np.array([np.zeros_like(U[0]) if t is None else np.asarray(t).reshape(-1) for t in a['tau']])
            r.count('mass_defects_with_tau')
        exp = max(float(np.max(np.abs(x))) for x in d)
        mag = float(np.max(np.abs(Mm))) * float(np.max(np.abs(U))) * len(U[0]) + float(np.max(np.abs(QF)))
        r.check(abs(a['residual'] - exp) <= 1e-12 * mag + 1e-300, 'residual-is-defect', lambda: f'{r.key}: at {ev["cb"]} (slot {ev["slot"]}, level {lvl}, iter {ev["iter"]}) the mass-matrix sweeper reports residual {a["residual"]} but the defect of the held values ({"with" if have_tau else "without"} tau) has norm {exp}')
        r.observe('mass_defect_level', f'L{lvl}')
        r.nontrivial = True
    r.sample = dict(case={k: v for k, v in case.items() if not k.startswith('_')})


def run_case(case):
    r = Result(case)
    if case['kind'] == 'run':
        run_run(case, r)
    elif case['kind'] == 'mass':
        run_mass(case, r)
    elif case['kind'] == 'script_blocks':
        run_script_blocks(case, r)
    else:
        run_script(case, r)
    r.count('kind:' + case['kind'])
    return r


def finalize(agg):
    out = []
    c = agg['counters']
    for k in ('oracle:residual-is-defect', 'oracle:scripted-stop-index', 'oracle:niter-is-iterations-performed', 'oracle:early-stop-needs-residual'):
        if c.get(k, 0) == 0:
            out.append(f'monitor {k} never evaluated')
    cbs = agg['seen'].get('defect_cb', set())
    for need in ('post_sweep/L0', 'post_iteration/L0', 'post_step/L0', 'post_sweep/L1'):
        if need not in cbs:
            out.append(f'defect oracle never ran at {need}')
    if not {'L0', 'L1'} <= set(agg['seen'].get('mass_defect_level', ())) or c.get('mass_defects_with_tau', 0) == 0:
        out.append('the mass-matrix sweeper never reached the defect oracle on a coarse level with a FAS correction')
    for k, why in (('forced_continuations', 'no forced continuation was injected'), ('forced_stops', 'no forced stop was injected in a multi-block script'), ('scripts_running_past_the_budget', 'no script ran past the iteration budget')):
        if c.get(k, 0) == 0:
            out.append(why)
    return out
