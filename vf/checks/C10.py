"""C10 — coarse levels never change the fine fixed point (FAS consistency).

A real step hierarchy is prepared through the controller (restart_block), the fine level is loaded with its collocation
solution (or an arbitrary iterate) and one full iteration is driven through the controller's own stage functions
it_down / it_coarse / it_up / it_fine; wrappers on BaseTransfer.restrict snapshot each coarse level right after restriction.
"""

import numpy as np

from vf.core import Result

PROPERTY = 'C10'
LEVEL = 'exploration'
TECHNIQUE = 'state injection into a real level hierarchy + wrappers on restrict + matrix multigrid-in-time reference model'
RULE = (
    'one case = one 2- or 3-level hierarchy (linear problems of C01 or nonlinear Allen-Cahn / Fisher / van der Pol / logistic; Lagrange transfer orders 2-8, '
    'FFT transfer, identity transfer; node pairs/triples with equal or different counts; prolongation of values or values+rhs) driven once from the fine '
    'collocation solution (fixed-point clause) or from a random iterate (iteration-matrix clause, linear only); non-trivial = the cycle ran and the oracle compared node values; '
    'distinct by configuration'
)
ASSUMPTIONS = [
    'space transfer matrices are read off the real space_transfer object by applying it to unit vectors; node transfer matrices are recomputed (Lagrange) by the model',
    'fixed-point tolerance 1e-10*scale (linear: fine solution from a dense solve; nonlinear: fine SDC iterated to 1e-13 first, Newton tolerance 1e-13)',
    'k-dependent preconditioners are excluded (the controller feeds them a per-iteration sweep index)',
]
EXHAUSTIVE = {'quick': False, 'thorough': False}


def cases(tier, seed):
    from vf.gen import gen_run_case
    from vf.ref import sdc as ref

    rng = np.random.default_rng(seed + 1010)
    cs = []
    n = 200 if tier == 'quick' else 24000
    g3 = ref.coll(3)
    i = 0
    while len(cs) < n:
        i += 1
        c = gen_run_case(rng, max_procs=1, problems=['dahlquist', 'dahlquist_imex', 'heat', 'heatf', 'adv', 'dense', 'denseimex'], allow_nonright=True)
        if c['nlev'] < 2:
            continue
        if ref.kdependent(g3, c['QI']):
            continue
        c['num_procs'] = 1
        if c['prob'] in ('dahlquist', 'dahlquist_imex', 'dense', 'denseimex') and i % 3 == 0:
            # deep hierarchies (4-5 levels): the middle levels 2, 3 are visited on the way down and on the way up like level 1
            deep = int(rng.choice([4, 5]))
            lowest = 2 if c['qt'] in ('LOBATTO', 'RADAU-LEFT') else 1
            while len(c['Ms']) < deep:
                c['Ms'].append(max(lowest, c['Ms'][-1] - int(rng.integers(0, 2))))
            c['nsweeps'] = [int(rng.choice([1, 1, 2])) for _ in range(deep - 1)] + [1]
            c['nlev'] = deep
        c['kind'] = 'fixed' if len(cs) % 2 == 0 else 'iter'
        c['predict'] = None
        c['restol'] = -1.0
        c['_cost'] = c['nlev'] * (4 if c['prob'] in ('heat', 'heatf', 'adv') else 1)
        cs.append(c)
    nn = 40 if tier == 'quick' else 4000
    for j in range(nn):
        cs.append(dict(kind='nonlinear', which=j % 5, nlev=int(rng.choice([2, 3])), Ms=[int(x) for x in sorted(rng.integers(2, 6, size=3), reverse=True)], qt=['RADAU-RIGHT', 'LOBATTO'][j % 2],
                       iorder=int(rng.choice([2, 4, 6, 8])), finter=bool(rng.random() < 0.4), nsweeps_mid=int(rng.choice([1, 2])), seed=int(rng.integers(0, 2**31)), _cost=20))
        if j % 3 == 0:
            # a different quadrature type on every level (only the finest has to end on a node for the copy end point)
            nl = cs[-1]['nlev']
            cs[-1]['qts'] = [['RADAU-RIGHT', 'LOBATTO'][j % 2]] + [['LOBATTO', 'RADAU-RIGHT', 'RADAU-LEFT', 'GAUSS'][int(rng.integers(0, 4))] for _ in range(nl - 1)]
        if j % 4 == 1:
            # deep hierarchies: node coarsening only (identity space transfer), 4-5 levels
            cs[-1].update(which=2 + (j // 4) % 2, nlev=int(rng.choice([4, 5])), Ms=[6, 5, 4, 3, 2])
    for j in range(30 if tier == 'quick' else 3000):
        nlev = int(rng.choice([2, 3, 3]))
        n0 = int(rng.integers(2, 9))
        sizes = [n0, n0 if rng.random() < 0.4 else max(1, n0 // 2), 0]
        sizes[2] = sizes[1] if rng.random() < 0.5 else max(1, sizes[1] // 2)
        cs.append(dict(kind='mass', nlev=nlev, Ms=[int(x) for x in sorted(rng.integers(2, 6, size=3), reverse=True)], sizes=sizes, qt=['RADAU-RIGHT', 'LOBATTO', 'GAUSS'][j % 3],
                       finter=bool(rng.random() < 0.4), nsweeps_mid=int(rng.choice([1, 2])), dtexp=float(rng.uniform(-2.5, -0.5)), seed=int(rng.integers(0, 2**31)), _cost=10))
    return cs


def space_matrices(st, Pf, Pc):
    """dense matrices of the real space transfer object (mesh data), by unit vectors"""
    nf = int(np.prod(np.asarray(Pf.u_init).shape))
    nc = int(np.prod(np.asarray(Pc.u_init).shape))
    dtype = np.asarray(Pf.u_init).dtype
    Rs = np.zeros((nc, nf), dtype=dtype)
    Ps = np.zeros((nf, nc), dtype=dtype)
    for i in range(nf):
        e = Pf.u_init
        e[:] = 0
        e.reshape(-1)[i] = 1
        Rs[:, i] = np.asarray(st.restrict(e)).reshape(-1)
    for j in range(nc):
        e = Pc.u_init
        e[:] = 0
        e.reshape(-1)[j] = 1
        Ps[:, j] = np.asarray(st.prolong(e)).reshape(-1)
    return Rs, Ps


def base_transfers(S):
    d = getattr(S, '_Step__transfer_dict')
    out = {}
    for (src, tgt), fn in d.items():
        li, lj = S.levels.index(src), S.levels.index(tgt)
        if lj == li + 1:
            out[li] = fn.__self__
    return out


def install_restrict_snapshots(S, snaps):
    """wrap the bound restrict of every BaseTransfer (instance attribute + transfer dict entry)"""
    d = getattr(S, '_Step__transfer_dict')
    for (src, tgt), fn in list(d.items()):
        li, lj = S.levels.index(src), S.levels.index(tgt)
        if lj == li + 1:
            bt = fn.__self__

            def wrapped(fn=fn, bt=bt, li=li):
                out = fn()
                F, G = bt.fine, bt.coarse
                snaps.append(dict(level=li, Gu=[np.array(np.asarray(x), copy=True) for x in G.u], Gf=[np.array(np.asarray(x), copy=True) for x in G.f],
                                  Gtau=[None if x is None else np.array(np.asarray(x), copy=True) for x in G.tau],
                                  Fu=[np.array(np.asarray(x), copy=True) for x in F.u], Ff=[np.array(np.asarray(x), copy=True) for x in F.f],
                                  Ftau=[None if x is None else np.array(np.asarray(x), copy=True) for x in F.tau], dt=G.dt))
                return out

            d[(src, tgt)] = wrapped


def fsum(f):
    a = np.asarray(f)
    return a.reshape(-1) if a.ndim == 1 or a.shape[0] != 2 or a.ndim == 1 else a


def full_f_flat(f, imex):
    a = np.asarray(f)
    if imex:
        return (a[0] + a[1]).reshape(-1)
    return a.reshape(-1)


def check_restrict_snapshots(r, tag, snaps, S, Qs, imex, transfers):
    """coarse defect right after restriction == restricted fine defect"""
    for sn in snaps:
        li = sn['level']
        Qf, Qc = Qs[li], Qs[li + 1]
        Rs, Ps, Rc, Pc = transfers[li]
        Uf = np.array([x.reshape(-1) for x in sn['Fu']])
        Ff = np.array([full_f_flat(x, imex) for x in sn['Ff']])
        Uc = np.array([x.reshape(-1) for x in sn['Gu']])
        Fc = np.array([full_f_flat(x, imex) for x in sn['Gf']])
        dt = sn['dt']
        df = Uf[0][None, :] + dt * (Qf @ Ff[1:]) - Uf[1:]
        if sn['Ftau'][0] is not None:
            df = df + np.array([x.reshape(-1) for x in sn['Ftau']])
        dc = Uc[0][None, :] + dt * (Qc @ Fc[1:]) - Uc[1:]
        if sn['Gtau'][0] is not None:
            dc = dc + np.array([x.reshape(-1) for x in sn['Gtau']])
        exp = Rc @ (df @ Rs.T)
        scale = max(1.0, float(np.max(np.abs(Uf))), dt * float(np.max(np.abs(Ff))))
        e = float(np.max(np.abs(dc - exp)))
        r.check(e <= 1e-11 * scale * max(1.0, float(np.max(np.sum(np.abs(Rc), axis=1)))), 'coarse-defect-is-restricted-fine-defect', f'{tag}: right after restriction {li}->{li + 1} the coarse defect differs from the restricted fine defect by {e:.3e} (scale {scale:.2e})', level=li)


def drive_cycle(ctrl, S):
    ctrl.it_down([S])
    ctrl.it_coarse([S])
    ctrl.it_up([S])
    ctrl.it_fine([S])


def run_linear(case, r):
    from vf.checks.C01 import config_key, twin_problem
    from vf.gen import build_controller, description_for, linearize
    from vf.levelkit import load_level, read_u
    from vf.ref import mlsdc as mref
    from vf.ref import sdc as ref

    r.key = case['kind'] + '/' + config_key(case)
    nlev = case['nlev']
    try:
        gens = [ref.coll(M, case['nt'], case['qt']) for M in case['Ms']]
    except Exception:  # noqa
        r.count('rule_rejected_by_qmat')
        r.check(True, 'noop', '')
        return
    from vf.checks.C01 import contraction_dt

    case = dict(case)
    desc0 = description_for(case)
    A0, B0, _g0 = linearize(twin_problem(desc0), 0.0)
    dtc = contraction_dt(case, A0, B0, gens[0])
    if dtc is None:
        r.count('no_contraction_found')
        r.check(True, 'noop', '')
        return
    case['dt'] = dtc
    try:
        ctrl, desc = build_controller(case)
    except Exception as e:  # noqa
        r.count('rejected_at_construction')
        r.check(True, 'noop', '')
        return
    S = ctrl.MS[0]
    imex = case['prob'] in ('dahlquist_imex', 'heatf', 'denseimex')
    rng = np.random.default_rng(case['pseed'] + 11)
    t0, dt = case['t0'], case['dt']
    Pf = S.levels[0].prob
    u0 = Pf.u_init
    shape = np.asarray(u0).shape
    cplx = np.iscomplexobj(np.asarray(u0))
    u0[:] = rng.standard_normal(shape) + (1j * rng.standard_normal(shape) if cplx else 0)
    ctrl.restart_block([0], [t0], u0)
    S.status.iter = 1
    # operators per level
    lv = []
    for l, L in enumerate(S.levels):
        pp = {k: (v[min(l, len(v) - 1)] if isinstance(v, list) else v) for k, v in desc['problem_params'].items()}
        twin = desc['problem_class'](**pp)
        A, B, g = linearize(twin, 0.0)
        gen = gens[l]
        nodes = np.array(gen.nodes)
        G = np.array([g(t0 + dt * c) for c in nodes])
        try:
            QI = ref.qdelta(gen, case['QI'], None)
            QE = ref.qdelta_explicit(gen, case['QE'], None)[0]
        except Exception:  # noqa
            r.count('qdelta_unavailable')
            r.check(True, 'noop', '')
            return
        if not (np.all(np.isfinite(QI)) and np.all(np.isfinite(QE))):
            r.count('qdelta_unavailable')
            r.check(True, 'noop', '')
            return
        lv.append(mref.Lvl(np.array(gen.Q), QI, QE, A, B, G, dt, imex))
    bts = base_transfers(S)
    transfers = []
    for l in range(nlev - 1):
        Rs, Ps = space_matrices(bts[l].space_transfer, S.levels[l].prob, S.levels[l + 1].prob)
        Pc = mref.lagrange_matrix(gens[l].nodes, gens[l + 1].nodes) if case['Ms'][l] != case['Ms'][l + 1] else np.eye(case['Ms'][l])
        Rc = mref.lagrange_matrix(gens[l + 1].nodes, gens[l].nodes) if case['Ms'][l] != case['Ms'][l + 1] else np.eye(case['Ms'][l])
        transfers.append((Rs, Ps, Rc, Pc))
    F = S.levels[0]
    Mf = case['Ms'][0]
    nf = lv[0].A.shape[0]
    u0v = np.asarray(u0).reshape(-1)
    Afull = lv[0].A + lv[0].B
    if case['kind'] == 'fixed':
        lhs = np.eye(Mf * nf) - dt * np.kron(lv[0].Q, Afull)
        if np.linalg.cond(lhs) > 1e8:
            r.count('skipped_ill_conditioned')
            r.check(True, 'noop', '')
            return
        Ustar, _ = ref.collocation_solve(lv[0].Q, Afull, dt, u0v, lv[0].G)
        Uload = np.vstack([u0v[None, :], Ustar])
    else:
        Uload = np.vstack([u0v[None, :], rng.standard_normal((Mf, nf)) + (1j * rng.standard_normal((Mf, nf)) if cplx else 0)])
    load_level(F, t0, Uload.reshape((Mf + 1,) + shape))
    snaps = []
    install_restrict_snapshots(S, snaps)
    before = read_u(F).reshape(Mf + 1, -1)
    tag = r.key
    with np.errstate(invalid='raise', over='raise'):
        drive_cycle(ctrl, S)
    after = read_u(F).reshape(Mf + 1, -1)
    Qs = [l_.Q for l_ in lv]
    check_restrict_snapshots(r, tag, snaps, S, Qs, imex, transfers)
    r.check(len(snaps) == nlev - 1, 'restrictions-observed', f'{tag}: {len(snaps)} restrictions observed for {nlev} levels')
    scale = max(1.0, float(np.max(np.abs(before))))
    # round-off amplification of the sweeps performed in the cycle (coarse levels may be outside the contraction range)
    amp = 1.0
    for l_, ns in zip(lv, case['nsweeps']):
        Ml, nl = l_.Q.shape[0], l_.A.shape[0]
        try:
            if imex:
                K = np.linalg.solve(np.eye(Ml * nl) - dt * np.kron(l_.QI, l_.A) - dt * np.kron(l_.QE, l_.B), dt * (np.kron(l_.Q - l_.QI, l_.A) + np.kron(l_.Q - l_.QE, l_.B)))
            else:
                K = np.linalg.solve(np.eye(Ml * nl) - dt * np.kron(l_.QI, l_.A + l_.B), dt * np.kron(l_.Q - l_.QI, l_.A + l_.B))
            amp *= max(1.0, float(np.linalg.norm(K, np.inf))) ** ns
        except np.linalg.LinAlgError:
            amp = np.inf
    if not np.isfinite(amp) or amp > 1e4:
        r.count('roundoff_amplification_too_large')
        r.check(True, 'noop', '')
        return
    if case['kind'] == 'fixed':
        e = float(np.max(np.abs(after[1:] - before[1:])))
        r.check(e <= 1e-10 * scale * amp, 'fine-fixed-point-preserved', f'{tag}: the fine collocation solution changed by {e:.3e} in one down-up cycle (scale {scale:.2e})')
    else:
        # matrix multigrid-in-time model from the same iterate
        lv[0].U = before[1:].copy()
        lv[0].u0 = before[0].copy()
        lv[0].F_I, lv[0].F_E = lv[0].evalF(lv[0].U)
        lv[0].tau = None
        conds = []
        for l_ in lv:
            Ml, nl = l_.Q.shape[0], l_.A.shape[0]
            conds.append(np.linalg.cond(np.eye(Ml * nl) - dt * np.kron(l_.QI, l_.A if imex else l_.A + l_.B) - (dt * np.kron(l_.QE, l_.B) if imex else 0)))
        if max(conds) > 1e7:
            r.count('skipped_ill_conditioned')
            r.check(True, 'noop', '')
            return
        exp = mref.iteration(lv, transfers, case['nsweeps'], case['finter'])
        e = float(np.max(np.abs(after[1:] - exp)))
        sc = max(scale, float(np.max(np.abs(exp))))
        r.check(e <= 1e-11 * max(conds) * sc, 'iteration-equals-multigrid-matrix', f'{tag}: fine values after one multilevel iteration differ from the matrix model by {e:.3e} (scale {sc:.2e}, cond {max(conds):.1e})')
    r.nontrivial = True
    r.observe('kind', case['kind'])
    r.observe('levels', f"{nlev}/{case['Ms']}/{case['space_coarsen']}")
    r.observe('finter', case['finter'])
    r.observe('prob', case['prob'])
    r.sample = dict(case={k: v for k, v in case.items() if not k.startswith('_')})


def run_nonlinear(case, r):
    from pySDC.implementations.controller_classes.controller_nonMPI import controller_nonMPI
    from pySDC.implementations.problem_classes.AllenCahn_1D_FD import allencahn_front_fullyimplicit, allencahn_periodic_fullyimplicit
    from pySDC.implementations.problem_classes.GeneralizedFisher_1D_FD_implicit import generalized_fisher
    from pySDC.implementations.problem_classes.LogisticEquation import logistics_equation
    from pySDC.implementations.problem_classes.Van_der_Pol_implicit import vanderpol
    from pySDC.implementations.sweeper_classes.generic_implicit import generic_implicit
    from pySDC.implementations.transfer_classes.TransferMesh import mesh_to_mesh
    from pySDC.implementations.transfer_classes.TransferMesh_FFT import mesh_to_mesh_fft
    from pySDC.implementations.transfer_classes.TransferMesh_NoCoarse import mesh_to_mesh as nocoarse

    from vf.levelkit import read_u
    from vf.ref import mlsdc as mref
    from vf.ref import sdc as ref

    which, nlev = case['which'], case['nlev']
    Ms = case['Ms'][:nlev]
    qts = (case.get('qts') or [case['qt']] * nlev)[:nlev]
    qts = qts + [qts[-1]] * (nlev - len(qts))
    Ms = [max(2, m) if q in ('LOBATTO', 'RADAU-LEFT') else m for m, q in zip(Ms, qts)]
    tol = dict(newton_tol=1e-13, newton_maxiter=200)
    st, stp = mesh_to_mesh, dict(iorder=case['iorder'], rorder=2)
    if which == 0:
        pc, pp, dt = allencahn_front_fullyimplicit, dict(nvars=[31, 15, 7][:nlev], **tol), 1e-3
    elif which == 1:
        pc, pp, dt = generalized_fisher, dict(nvars=[31, 15, 7][:nlev], nu=1.0, lambda0=2.0, **tol), 1e-3
    elif which == 2:
        pc, pp, dt = vanderpol, dict(mu=2.0, u0=np.array([2.0, 0.0]), **tol), 0.05
        st, stp = nocoarse, {}
    elif which == 3:
        pc, pp, dt = logistics_equation, dict(u0=0.5, lam=2.0, direct=False, **tol), 0.1
        st, stp = nocoarse, {}
    else:
        pc, pp, dt = allencahn_periodic_fullyimplicit, dict(nvars=[32, 16, 8][:nlev], **tol), 1e-3
        if case['seed'] % 2:
            st, stp = mesh_to_mesh_fft, {}
        else:
            stp = dict(iorder=case['iorder'], rorder=2, periodic=True)
    r.key = f"nonlinear/{pc.__name__}/{nlev}/{Ms}/{qts}/{st.__name__}/{stp}/finter{case['finter']}/mid{case['nsweeps_mid']}"
    tag = r.key
    swp = dict(num_nodes=Ms, quad_type=qts if len(set(qts)) > 1 else qts[0], QI='LU')
    nsw = [1] * nlev
    if nlev == 3:
        nsw[1] = case['nsweeps_mid']
    desc = dict(problem_class=pc, problem_params=pp, sweeper_class=generic_implicit, sweeper_params=swp, level_params=dict(dt=dt, restol=-1, nsweeps=nsw),
                step_params=dict(maxiter=1), space_transfer_class=st, space_transfer_params=stp, base_transfer_params=dict(finter=case['finter']))
    # single-level fine problem iterated to convergence first
    pp1 = {k: (v[0] if isinstance(v, list) else v) for k, v in pp.items()}
    d1 = dict(problem_class=pc, problem_params=pp1, sweeper_class=generic_implicit, sweeper_params=dict(num_nodes=Ms[0], quad_type=qts[0], QI='LU'),
              level_params=dict(dt=dt, restol=1e-13), step_params=dict(maxiter=300))
    c1 = controller_nonMPI(1, dict(logger_level=50, dump_setup=False), d1)
    P1 = c1.MS[0].levels[0].prob
    u0 = P1.u_exact(0.0)
    c1.run(u0, 0.0, dt)
    L1 = c1.MS[0].levels[0]
    if L1.status.residual is None or L1.status.residual > 1e-12:
        r.count('fine_problem_not_converged')
        r.check(True, 'noop', '')
        return
    ctrl = controller_nonMPI(1, dict(logger_level=50, dump_setup=False, predict_type=None), desc)
    S = ctrl.MS[0]
    ctrl.restart_block([0], [0.0], u0)
    S.status.iter = 1
    F = S.levels[0]
    M = Ms[0]
    F.status.time = 0.0
    for m in range(M + 1):
        F.u[m] = F.prob.dtype_u(L1.u[m])
        F.f[m] = F.prob.eval_f(F.u[m], 0.0 + dt * (0.0 if m == 0 else F.sweep.coll.nodes[m - 1]))
    F.status.unlocked = True
    snaps = []
    bts = base_transfers(S)
    install_restrict_snapshots(S, snaps)
    before = read_u(F).reshape(M + 1, -1)
    drive_cycle(ctrl, S)
    after = read_u(F).reshape(M + 1, -1)
    scale = max(1.0, float(np.max(np.abs(before))))
    e = float(np.max(np.abs(after - before)))
    r.check(e <= 1e-10 * scale, 'fine-fixed-point-preserved', f'{tag}: the converged fine solution changed by {e:.3e} in one down-up cycle (scale {scale:.2e})')
    gens = [ref.coll(m, 'LEGENDRE', q) for m, q in zip(Ms, qts)]
    transfers = []
    for l in range(nlev - 1):
        Rs, Ps = space_matrices(bts[l].space_transfer, S.levels[l].prob, S.levels[l + 1].prob)
        same = Ms[l] == Ms[l + 1] and qts[l] == qts[l + 1]
        Pc = np.eye(Ms[l]) if same else mref.lagrange_matrix(gens[l].nodes, gens[l + 1].nodes)
        Rc = np.eye(Ms[l]) if same else mref.lagrange_matrix(gens[l + 1].nodes, gens[l].nodes)
        transfers.append((Rs, Ps, Rc, Pc))
    check_restrict_snapshots(r, tag, snaps, S, [np.array(g.Q) for g in gens], False, transfers)
    r.check(len(snaps) == nlev - 1, 'restrictions-observed', f'{tag}: {len(snaps)} restrictions observed')
    r.nontrivial = True
    r.observe('kind', 'nonlinear')
    r.observe('nonlinear_problem', pc.__name__)
    r.observe('space_transfer', st.__module__.split('.')[-1])
    r.sample = dict(case={k: v for k, v in case.items() if not k.startswith('_')}, change=e)


def run_mass(case, r):
    """FAS with a mass matrix (base_transfer_mass + imex_1st_order_mass): the converged fine solution of
    Mm U = Mm u0 + dt Q F(U) must survive a down-up cycle over 2 and 3 levels (inherited tau on the middle level)"""
    from pySDC.implementations.controller_classes.controller_nonMPI import controller_nonMPI
    from pySDC.implementations.sweeper_classes.imex_1st_order_mass import imex_1st_order_mass
    from pySDC.implementations.transfer_classes.BaseTransfer_mass import base_transfer_mass

    from vf import harness_problems as hp
    from vf.levelkit import rand_matrix, read_u

    rng = np.random.default_rng(case['seed'])
    nlev, Ms, sizes = case['nlev'], case['Ms'][: case['nlev']], case['sizes'][: case['nlev']]
    dt = 10 ** case['dtexp']
    As, Bs, Mms = [], [], []
    for n in sizes:
        As.append(rand_matrix(rng, n, 'stable', False))
        Bs.append(rand_matrix(rng, n, 'any', False, scale=0.3))
        X = rng.standard_normal((n, n))
        Mms.append(np.eye(n) + 0.3 * (X @ X.T) / n)
    r.key = f"mass/{nlev}/{Ms}/{sizes}/{case['qt']}/finter{case['finter']}/mid{case['nsweeps_mid']}/{case['dtexp']:.2f}"
    tag = r.key
    w = float(rng.uniform(0.5, 3))
    c0 = [rng.standard_normal(n) for n in sizes]
    d1 = dict(problem_class=hp.DenseMass, problem_params=dict(A=As[0], B=Bs[0], Mm=Mms[0], c0=c0[0], c1=c0[0][::-1].copy(), w=w), sweeper_class=imex_1st_order_mass,
              sweeper_params=dict(num_nodes=Ms[0], quad_type=case['qt'], QI='LU', QE='EE'), level_params=dict(dt=dt, restol=1e-13), step_params=dict(maxiter=400))
    c1 = controller_nonMPI(1, dict(logger_level=50, dump_setup=False), d1)
    P1 = c1.MS[0].levels[0].prob
    u0 = P1.u_init
    u0[:] = rng.standard_normal(sizes[0])
    try:
        c1.run(u0, 0.0, dt)
    except Exception:  # noqa
        r.count('fine_problem_not_converged')
        r.check(True, 'noop', '')
        return
    L1 = c1.MS[0].levels[0]
    if L1.status.residual is None or not (L1.status.residual <= 1e-12):
        r.count('fine_problem_not_converged')
        r.check(True, 'noop', '')
        return
    nsw = [1] * nlev
    if nlev == 3:
        nsw[1] = case['nsweeps_mid']
    desc = dict(problem_class=hp.DenseMass, problem_params=dict(A=As, B=Bs, Mm=Mms, c0=c0, c1=[c[::-1].copy() for c in c0], w=w), sweeper_class=imex_1st_order_mass,
                sweeper_params=dict(num_nodes=Ms, quad_type=case['qt'], QI='LU', QE='EE'), level_params=dict(dt=dt, restol=-1, nsweeps=nsw), step_params=dict(maxiter=1),
                space_transfer_class=hp.DenseGalerkinTransfer, space_transfer_params={}, base_transfer_class=base_transfer_mass, base_transfer_params=dict(finter=case['finter']))
    ctrl = controller_nonMPI(1, dict(logger_level=50, dump_setup=False, predict_type=None), desc)
    S = ctrl.MS[0]
    r.check(all(type(bt).__name__ == 'base_transfer_mass' for bt in base_transfers(S).values()), 'mass-transfer-in-use', f'{tag}: base transfer classes {[type(bt).__name__ for bt in base_transfers(S).values()]}')
    ctrl.restart_block([0], [0.0], u0)
    S.status.iter = 1
    F = S.levels[0]
    M = Ms[0]
    F.status.time = 0.0
    for m in range(M + 1):
        F.u[m] = F.prob.dtype_u(L1.u[m])
        F.f[m] = F.prob.eval_f(F.u[m], 0.0 + dt * (0.0 if m == 0 else F.sweep.coll.nodes[m - 1]))
    F.status.unlocked = True
    before = read_u(F).reshape(M + 1, -1)
    # coarse defects right after each restriction (wrapped restrict): at the fine fixed point they must vanish
    resids = []
    d = getattr(S, '_Step__transfer_dict')
    for (src, tgt), fn in list(d.items()):
        li, lj = S.levels.index(src), S.levels.index(tgt)
        if lj == li + 1:
            def wrapped(fn=fn, G=tgt, li=li):
                out = fn()
                G.sweep.compute_residual()
                resids.append((li + 1, float(G.status.residual)))
                return out

            d[(src, tgt)] = wrapped
    drive_cycle(ctrl, S)
    after = read_u(F).reshape(M + 1, -1)
    scale = max(1.0, float(np.max(np.abs(before))))
    e = float(np.max(np.abs(after - before)))
    cond = max(float(np.linalg.cond(Mm)) for Mm in Mms)
    r.check(e <= 1e-10 * scale * cond, 'fine-fixed-point-preserved', f'{tag}: the converged fine solution of the mass-matrix problem changed by {e:.3e} in one down-up cycle (scale {scale:.2e})')
    for lev, res in resids:
        r.check(res <= 1e-10 * scale * cond, 'coarse-defect-is-restricted-fine-defect', f'{tag}: level {lev} has residual {res:.3e} right after restriction although the fine level sits at its collocation solution (residual {L1.status.residual:.1e})')
    r.check(len(resids) == nlev - 1, 'restrictions-observed', f'{tag}: {len(resids)} restrictions observed')
    r.nontrivial = True
    r.observe('kind', 'mass')
    r.sample = dict(case={k: v for k, v in case.items() if not k.startswith('_')}, change=e)


def run_case(case):
    r = Result(case)
    if case['kind'] == 'nonlinear':
        run_nonlinear(case, r)
    elif case['kind'] == 'mass':
        run_mass(case, r)
    else:
        run_linear(case, r)
    r.count('kind:' + case['kind'])
    return r


def finalize(agg):
    out = []
    c = agg['counters']
    for k in ('oracle:fine-fixed-point-preserved', 'oracle:coarse-defect-is-restricted-fine-defect', 'oracle:iteration-equals-multigrid-matrix'):
        if c.get(k, 0) == 0:
            out.append(f'monitor {k} never evaluated')
    for kind in ('fixed', 'iter', 'nonlinear', 'mass'):
        if kind not in agg['seen'].get('kind', ()):
            out.append(f'kind {kind} never reached its oracle')
    return out
