"""C17 — spectral helper matrices agree with exact polynomial / Fourier calculus.

Runtime contracts on the matrices and transforms returned by ChebychevHelper, UltrasphericalHelper, FFTHelper and
SpectralHelper (serial), judged against numpy.polynomial.chebyshev calculus, explicit U / ultraspherical / Dirichlet
basis evaluations and analytic Fourier formulas on random coefficient vectors.
"""

import numpy as np
from numpy.polynomial import chebyshev as C

from vf.core import Result

PROPERTY = 'C17'
LEVEL = 'exploration'
TECHNIQUE = 'runtime contracts on helper operators vs numpy.polynomial.chebyshev / analytic Fourier calculus on random coefficient vectors'
RULE = (
    'kind=cheb / ultra / fft: one (N, interval, seed) with all operators of that helper for p=1..3; kind=nd: one 2-D/3-D SpectralHelper with mixed bases checked on separable data; '
    'N in {1,2,3,4,7,8,16,33,64} (quick) / 1..64 (thorough), reference interval and random x0<x1; non-trivial = >= 1 operator compared on a random coefficient vector; distinct by (kind, N, interval)'
)
ASSUMPTIONS = [
    'numpy.polynomial.chebyshev (chebval, chebder, chebint) and explicit three-term recurrences are the reference calculus',
    'tolerance 1e-10 * N^(2p) * scale (differentiation amplifies round-off by ~N^2 per order)',
    'Chebyshev-T integration matrix, Neumann and integral rows are checked on the reference interval only (documented as such); Fourier test functions are band limited below the Nyquist mode',
]
EXHAUSTIVE = {'quick': False, 'thorough': False}


def cases(tier, seed):
    rng = np.random.default_rng(seed + 1717)
    Ns = [1, 2, 3, 4, 7, 8, 16, 33, 64] if tier == 'quick' else list(range(1, 97)) + [128]
    cs = []
    for N in Ns:
        ivs = [(-1.0, 1.0), (float(rng.uniform(-5, 0)), float(rng.uniform(0.5, 7))), (float(rng.uniform(10, 20)), float(rng.uniform(20.5, 21)))]
        if tier != 'quick':
            ivs += [(float(rng.uniform(-1e3, 1e3)), 0.0) for _ in range(2)]
            ivs = [(a, b) if a < b else (a, a + float(rng.uniform(1e-2, 50))) for (a, b) in ivs]
        for (a, b) in ivs:
            for kind in ('cheb', 'ultra'):
                cs.append(dict(kind=kind, N=N, x0=a, x1=b, seed=int(rng.integers(0, 2**31)), _cost=N))
        for (a, b) in [(0.0, 2 * np.pi), (float(rng.uniform(-3, 0)), float(rng.uniform(0.5, 9)))]:
            cs.append(dict(kind='fft', N=N, x0=a, x1=b, seed=int(rng.integers(0, 2**31)), _cost=N))
    bases = ['fft', 'chebychev', 'ultraspherical']
    for i in range(30 if tier == 'quick' else 3000):
        dim = int(rng.choice([2, 2, 3]))
        cs.append(dict(kind='nd', bases=[bases[int(rng.integers(0, 3))] for _ in range(dim)], Ns=[int(rng.integers(2, 9 if dim == 3 else 13)) for _ in range(dim)], seed=int(rng.integers(0, 2**31)), _cost=50))
    return cs


def dense(M):
    return M.toarray() if hasattr(M, 'toarray') else np.asarray(M)


def cheb_U_vals(c, xi):
    """sum_k c_k U_k(xi)"""
    U0, U1 = np.ones_like(xi), 2 * xi
    out = c[0] * U0
    if len(c) > 1:
        out = out + c[1] * U1
    for k in range(2, len(c)):
        U0, U1 = U1, 2 * xi * U1 - U0
        out = out + c[k] * U1
    return out


def gegenbauer_vals(c, xi, lam):
    """sum_k c_k C_k^(lam)(xi), lam >= 1"""
    C0, C1 = np.ones_like(xi), 2 * lam * xi
    out = c[0] * C0
    if len(c) > 1:
        out = out + c[1] * C1
    for k in range(2, len(c)):
        C0, C1 = C1, (2 * (k + lam - 1) * xi * C1 - (k + 2 * lam - 2) * C0) / k
        out = out + c[k] * C1
    return out


def run_cheb(case, r, ultra=False):
    from pySDC.helpers.spectral_helper import ChebychevHelper, UltrasphericalHelper

    N, x0, x1 = case['N'], case['x0'], case['x1']
    rng = np.random.default_rng(case['seed'])
    H = (UltrasphericalHelper if ultra else ChebychevHelper)(N, x0=x0, x1=x1)
    tag = f"{'ultra' if ultra else 'cheb'}/N{N}/[{x0:.3g},{x1:.3g}]"
    r.key = tag
    fac, off = (x1 - x0) / 2, (x1 + x0) / 2
    ref = (x0, x1) == (-1.0, 1.0)
    c = rng.standard_normal(N)
    scale = max(1.0, float(np.max(np.abs(c))))
    # ---- grid and transforms
    x = np.asarray(H.get_1dgrid())
    xi_exp = np.cos(np.pi / N * (np.arange(N) + 0.5))
    r.check(float(np.max(np.abs(x - (fac * xi_exp + off)))) <= 1e-13 * max(abs(x0), abs(x1), 1), 'cheb-grid', f'{tag}: grid is not the mapped Chebyshev-Gauss grid')
    xi = xi_exp  # exact reference points (the grid clause above ties x to them); (x - off) / fac would lose digits for far-away intervals
    u = C.chebval(xi, c)
    uh = np.asarray(H.transform(u.copy()))
    r.check(float(np.max(np.abs(uh - c))) <= 1e-12 * scale * N, 'cheb-transform', f'{tag}: transform of sum c_k T_k on the grid does not return c (err {np.max(np.abs(uh - c)):.3e})')
    ub = np.asarray(H.itransform(np.array(c, copy=True)))
    r.check(float(np.max(np.abs(ub - u))) <= 1e-12 * scale * N, 'cheb-itransform', f'{tag}: itransform(c) is not the polynomial on the grid')
    v = rng.standard_normal(N)
    r.check(float(np.max(np.abs(np.asarray(H.itransform(H.transform(v.copy()))) - v))) <= 1e-12 * N, 'transform-roundtrip', f'{tag}: itransform(transform(u)) != u')
    # ---- differentiation
    for p in (1, 2, 3):
        exp = np.zeros(N)
        d = C.chebder(c, p) / fac**p if N > p else np.zeros(1)
        exp[: len(d)] = d[:N]
        if not ultra:
            got = dense(H.get_differentiation_matrix(p=p)) @ c
        else:
            Dp = dense(H.get_differentiation_matrix(p=p))
            if Dp.shape != (N, N):
                r.check(False, 'differentiation', f'{tag}: ultraspherical D_{p} has shape {Dp.shape} for N={N}', mech='ultraspherical-derivative-wrong-shape-for-N-less-than-order' if N < p else None)
                continue
            if N <= 2:
                continue  # the basis change back to T is unavailable for N <= 2 (see conversions below)
            gotC = Dp @ c  # coefficients in the ultraspherical basis lambda = p
            # (i) as a function: evaluate in the C^(p) basis
            pts = np.linspace(-0.9, 0.9, 7)
            fexp = C.chebval(pts, C.chebder(c, p)) / fac**p if N > p else np.zeros_like(pts)
            fgot = gegenbauer_vals(gotC, pts, p)
            tolf = 1e-10 * N ** (2 * p) * scale / min(1.0, fac) ** p
            r.check(float(np.max(np.abs(fgot - fexp))) <= tolf, 'ultra-derivative-function', f'{tag}: sparse D_{p} does not represent the {p}-th derivative in the C^({p}) basis (err {np.max(np.abs(fgot - fexp)):.3e})')
            # (ii) after conversion back to T it agrees with the dense Chebyshev operator
            back = dense(H.get_basis_change_matrix(p_in=p, p_out=0))
            got = back @ gotC
        tol = 1e-10 * N ** (2 * p) * scale / min(1.0, fac) ** p
        e = float(np.max(np.abs(got - exp)))
        r.check(e <= tol, 'differentiation', f'{tag}: D^{p} c differs from chebder by {e:.3e} (tol {tol:.1e})')
    # ---- conversions
    pts = np.linspace(-1, 1, 9)
    if N <= 2:
        try:
            (H.get_S(0) if ultra else H.get_conv('T2U'))
        except ValueError as e:
            r.check(False, 'conversions-available', f'{tag}: basis conversion matrices cannot be built for N={N}: {e}', mech='chebyshev-conversion-matrices-fail-for-N-le-2' if 'out of bounds' in str(e) else None)
            r.nontrivial = True
            return
    if not ultra:
        T2U, U2T = dense(H.get_conv('T2U')), dense(H.get_conv('U2T'))
        r.check(float(np.max(np.abs(T2U @ U2T - np.eye(N)))) <= 1e-11 * N, 'conversions-inverse', f'{tag}: T2U U2T != I')
        cu = T2U @ c
        e = float(np.max(np.abs(cheb_U_vals(cu, pts) - C.chebval(pts, c))))
        r.check(e <= 1e-11 * N * scale, 'T2U-same-function', f'{tag}: T2U c does not represent the same polynomial in the U basis (err {e:.3e})')
        D2T, T2D = dense(H.get_conv('D2T')), dense(H.get_conv('T2D'))
        r.check(float(np.max(np.abs(D2T @ T2D - np.eye(N)))) <= 1e-10 * N * N, 'conversions-inverse', f'{tag}: D2T T2D != I')
        cd = rng.standard_normal(N)
        phi = np.zeros_like(pts)
        for j in range(N):
            ej = np.zeros(N)
            ej[j] = 1.0
            tj = C.chebval(pts, ej)
            if j >= 2:
                ej2 = np.zeros(N)
                ej2[j - 2] = 1.0
                tj = tj - C.chebval(pts, ej2)
            phi = phi + cd[j] * tj
        e = float(np.max(np.abs(C.chebval(pts, D2T @ cd) - phi)))
        r.check(e <= 1e-11 * N * max(1.0, float(np.max(np.abs(cd)))), 'D2T-same-function', f'{tag}: D2T does not map the Dirichlet recombination basis to T (err {e:.3e})')
        r.check(float(np.max(np.abs(dense(H.get_Dirichlet_recombination_matrix()) - D2T))) <= 1e-15, 'recombination-matrix', f'{tag}: Dirichlet recombination matrix differs from D2T')
        r.check(float(np.max(np.abs(dense(H.get_basis_change_matrix(conv='T2U')) - T2U))) == 0, 'basis-change-alias', f'{tag}: get_basis_change_matrix(T2U) differs from get_conv')
    else:
        mats = {}
        for a in range(0, 4):
            for b in range(0, 4):
                mats[(a, b)] = dense(H.get_basis_change_matrix(p_in=a, p_out=b))
        for a in range(0, 4):
            for b in range(0, 4):
                e = float(np.max(np.abs(mats[(a, b)] @ mats[(b, a)] - np.eye(N))))
                r.check(e <= 1e-9 * N**2, 'conversions-inverse', f'{tag}: C({a}->{b}) C({b}->{a}) != I (err {e:.3e})')
                for m in range(0, 4):
                    if min(a, b) <= m <= max(a, b):
                        e2 = float(np.max(np.abs(mats[(m, b)] @ mats[(a, m)] - mats[(a, b)])))
                        sc = max(1.0, float(np.max(np.abs(mats[(a, b)]))))
                        r.check(e2 <= 1e-9 * N**2 * sc, 'conversions-compose', f'{tag}: C({m}->{b}) C({a}->{m}) != C({a}->{b}) (err {e2:.3e})')
        for lam in (1, 2, 3):
            cl = mats[(0, lam)] @ c
            e = float(np.max(np.abs(gegenbauer_vals(cl, pts, lam) - C.chebval(pts, c))))
            r.check(e <= 1e-10 * N**2 * scale, 'ultra-conversion-same-function', f'{tag}: conversion 0->{lam} does not represent the same polynomial in C^({lam}) (err {e:.3e})')
    # ---- integration
    w = np.asarray(H.get_integration_weights())
    exact_int = fac * float(np.sum([c[k] * (1 + (-1) ** k) / (1 - k * k) for k in range(N) if k != 1]))
    r.check(abs(float(w @ c) - exact_int) <= 1e-12 * N * scale * max(1.0, fac), 'integration-weights', f'{tag}: weights . c = {float(w @ c)!r}, exact integral {exact_int!r}')
    cz = c.copy()
    cz[-1] = 0.0
    if ultra:
        S = dense(H.get_integration_matrix())
        got = S @ cz
        exp = np.zeros(N)
        ci = C.chebint(cz, lbnd=-1) * fac
        exp[: min(N, len(ci))] = ci[:N]
        e = float(np.max(np.abs(got[1:] - exp[1:]))) if N > 1 else 0.0
        r.check(e <= 1e-11 * N * scale * max(1.0, fac), 'integration-matrix', f'{tag}: ultraspherical integration matrix differs from chebint (modes >= 1) by {e:.3e}')
        r.check(N == 1 or abs(got[0]) <= 1e-14 * scale, 'integration-matrix', f'{tag}: integration matrix sets a constant mode')
    elif ref:
        S = dense(H.get_integration_matrix(lbnd=0))
        got = S @ cz
        exp = np.zeros(N)
        ci = C.chebint(cz, lbnd=0)
        exp[: min(N, len(ci))] = ci[:N]
        e = float(np.max(np.abs(got - exp)))
        r.check(e <= 1e-11 * N * scale, 'integration-matrix', f'{tag}: T integration matrix (from 0) differs from chebint by {e:.3e}')
    # ---- boundary rows
    for xb in (-1, 0, 1):
        row = np.asarray(H.get_Dirichlet_BC_row(xb)).astype(float)
        r.check(abs(float(row @ c) - float(C.chebval(float(xb), c))) <= 1e-12 * N * scale, 'dirichlet-row', f'{tag}: Dirichlet row at {xb} does not evaluate the polynomial')
    if ref:
        for xb in (-1, 1):
            row = np.real(np.asarray(H.get_Neumann_BC_row(xb)))
            expd = float(C.chebval(float(xb), C.chebder(c))) if N > 1 else 0.0
            r.check(abs(float(row @ c) - expd) <= 1e-11 * N**3 * scale, 'neumann-row', f'{tag}: Neumann row at {xb} gives {float(row @ c)!r}, derivative is {expd!r}')
        row = np.asarray(H.get_integ_BC_row())
        exact_ref = float(np.sum([c[k] * (1 + (-1) ** k) / (1 - k * k) for k in range(N) if k != 1]))
        r.check(abs(float(row @ c) - exact_ref) <= 1e-12 * N * scale, 'integral-row', f'{tag}: integral row gives {float(row @ c)!r}, exact {exact_ref!r}')
    r.nontrivial = True
    r.observe('helper', 'ultra' if ultra else 'cheb')
    r.observe('N', N)
    r.sample = dict(case={k: v for k, v in case.items() if not k.startswith('_')})


def run_fft(case, r):
    from pySDC.helpers.spectral_helper import FFTHelper

    N, x0, x1 = case['N'], case['x0'], case['x1']
    rng = np.random.default_rng(case['seed'])
    H = FFTHelper(N, x0=x0, x1=x1)
    L = x1 - x0
    tag = f'fft/N{N}/[{x0:.3g},{x1:.3g}]'
    r.key = tag
    x = np.asarray(H.get_1dgrid())
    r.check(float(np.max(np.abs(x - (x0 + np.arange(N) * L / N)))) <= 1e-13 * max(abs(x0), abs(x1), 1), 'fft-grid', f'{tag}: grid is not equidistant on [x0,x1)')
    kmax = (N - 1) // 2
    a = rng.standard_normal(kmax + 1)
    b = rng.standard_normal(kmax + 1)
    w0 = 2 * np.pi / L

    def f(xx, p=0):
        out = np.zeros_like(xx)
        for k in range(kmax + 1):
            # d^p/dx^p of a cos(k w0 (x-x0)) + b sin(k w0 (x-x0))
            ph = k * w0 * (xx - x0) + p * np.pi / 2
            out = out + (k * w0) ** p * (a[k] * np.cos(ph) + b[k] * np.sin(ph)) if (k > 0 or p == 0) else out
        return out

    u = f(x)
    scale = max(1.0, float(np.max(np.abs(u))))
    uh = np.asarray(H.transform(u.astype(complex)))
    back = np.asarray(H.itransform(uh.copy()))
    r.check(float(np.max(np.abs(back - u))) <= 1e-12 * N * scale, 'transform-roundtrip', f'{tag}: itransform(transform(u)) != u')
    k = np.asarray(H.get_wavenumbers())
    r.check(float(np.max(np.abs(k - np.fft.fftfreq(N, 1.0 / N) * w0))) <= 1e-12 * max(1.0, N * w0), 'wavenumbers', f'{tag}: wavenumbers are not 2 pi k / L')
    for p in (1, 2, 3):
        D = dense(H.get_differentiation_matrix(p=p))
        r.check(float(np.max(np.abs(D - np.diag((1j * np.fft.fftfreq(N, 1.0 / N) * w0) ** p)))) <= 1e-10 * max(1.0, (N * w0) ** p), 'fourier-D-is-(ik)^p', f'{tag}: D^{p} is not diag((ik)^{p})')
        du = np.asarray(H.itransform(D @ uh))
        e = float(np.max(np.abs(du - f(x, p))))
        tol = 1e-10 * max(1.0, (N * w0) ** p) * scale
        r.check(e <= tol and float(np.max(np.abs(np.imag(du)))) <= tol, 'differentiation', f'{tag}: spectral derivative of order {p} differs from the analytic one by {e:.3e} (tol {tol:.1e})')
    S = dense(H.get_integration_matrix())
    D1 = dense(H.get_differentiation_matrix(p=1))
    mf = uh.copy()
    mf[0] = 0
    e = float(np.max(np.abs(D1 @ (S @ mf) - mf)))
    r.check(e <= 1e-11 * N * max(1.0, float(np.max(np.abs(mf)))), 'integration-inverse', f'{tag}: D S != identity on mean-free data ({e:.3e})')
    wts = np.asarray(H.get_integration_weights())
    exact = a[0] * L
    r.check(abs(complex(wts @ uh) - exact) <= 1e-11 * N * scale * max(1.0, L), 'integration-weights', f'{tag}: weights . u_hat = {complex(wts @ uh)!r}, integral {exact!r}')
    row = np.asarray(H.get_integ_BC_row())
    r.check(abs(complex(row @ uh) - exact) <= 1e-11 * N * scale * max(1.0, L), 'integral-row', f'{tag}: integral row gives {complex(row @ uh)!r}, integral {exact!r}')
    r.nontrivial = True
    r.observe('helper', 'fft')
    r.observe('N', N)
    r.sample = dict(case={k: v for k, v in case.items() if not k.startswith('_')})


def run_nd(case, r):
    from pySDC.helpers.spectral_helper import SpectralHelper

    rng = np.random.default_rng(case['seed'])
    bases, Ns = case['bases'], case['Ns']
    tag = f'nd/{bases}/{Ns}'
    r.key = tag
    H = SpectralHelper(comm=None, debug=False)
    for b, n in zip(bases, Ns):
        H.add_axis(base=b, N=n)
    H.add_component('u')
    H.setup_fft()
    dim = len(bases)
    # 1-D operators of the axes
    one = [ax for ax in H.axes]
    vecs = [rng.standard_normal(n) + (1j * rng.standard_normal(n) if b == 'fft' else 0) for b, n in zip(bases, Ns)]

    def outer(vs):
        out = vs[0]
        for v in vs[1:]:
            out = np.multiply.outer(out, v)
        return out.reshape(-1)

    flat = outer(vecs)
    for axis in range(dim):
        for p in (1, 2):
            Dnd = H.get_differentiation_matrix(axes=(axis,), p=p)
            D1 = dense(one[axis].get_differentiation_matrix(p=p))
            exp = outer([D1 @ v if i == axis else v for i, v in enumerate(vecs)])
            got = Dnd @ flat
            sc = max(1.0, float(np.max(np.abs(exp))))
            e = float(np.max(np.abs(got - exp)))
            r.check(e <= 1e-10 * sc, 'nd-differentiation-is-tensor-product', f'{tag}: D^{p} along axis {axis} does not act as the Kronecker product of the 1-D operator (err {e:.3e})')
    # every other axis-parameterised N-D operator: Kronecker product of the 1-D operator of THAT axis with identities
    def kron_check(name, Mnd, M1, axis):
        M1 = dense(M1)
        exp = outer([M1 @ v if i == axis else v for i, v in enumerate(vecs)])
        Mnd = Mnd if not hasattr(Mnd, 'toarray') else Mnd
        got = Mnd @ flat
        ok_shape = got.shape == exp.shape
        e = float(np.max(np.abs(got - exp))) if ok_shape else np.inf
        r.check(ok_shape and e <= 1e-10 * max(1.0, float(np.max(np.abs(exp)))), 'nd-operator-is-tensor-product', f'{tag}: {name} along axis {axis} does not act as the Kronecker product of the 1-D operator of that axis with identities (err {e:.3e})')

    for axis in range(dim):
        for ax_arg in (axis, axis - dim):  # positive and negative axis indices
            try:
                kron_check('integration matrix', H.get_integration_matrix(axes=(ax_arg,)), one[axis].get_integration_matrix(), axis)
            except NotImplementedError:
                pass
            kmax = max(1, Ns[axis] // 2)
            kron_check('filter matrix', H.get_filter_matrix(axis=ax_arg, kmin=0, kmax=kmax), one[axis].get_filter_matrix(kmin=0, kmax=kmax), axis)
            if bases[axis] in ('chebychev', 'ultraspherical') and Ns[axis] >= 3:
                kron_check('Dirichlet recombination matrix', H.get_Dirichlet_recombination_matrix(axis=ax_arg), one[axis].get_Dirichlet_recombination_matrix(), axis)
            if bases[axis] == 'chebychev' and Ns[axis] >= 3:
                kron_check('basis change T2U', H.get_basis_change_matrix(axes=(ax_arg,), conv='T2U'), one[axis].get_basis_change_matrix(conv='T2U'), axis)
    if dim >= 2:
        a0, a1 = 0, dim - 1
        D2 = H.get_differentiation_matrix(axes=(a0, a1))
        exp = outer([dense(one[i].get_differentiation_matrix()) @ v if i in (a0, a1) else v for i, v in enumerate(vecs)])
        e = float(np.max(np.abs(D2 @ flat - exp)))
        r.check(e <= 1e-10 * max(1.0, float(np.max(np.abs(exp)))), 'nd-operator-is-tensor-product', f'{tag}: mixed derivative along axes {(a0, a1)} is not the product of the 1-D derivatives (err {e:.3e})')
    Id = H.get_Id()
    r.check(float(np.max(np.abs(Id @ flat - flat))) <= 1e-13 * max(1.0, float(np.max(np.abs(flat)))), 'nd-identity', f'{tag}: get_Id is not the identity')
    if all(b != 'fft' or True for b in bases):
        for axis in range(dim):
            if bases[axis] == 'ultraspherical':
                Cnd = H.get_basis_change_matrix(axes=(axis,), p_in=0, p_out=2)
                C1 = dense(one[axis].get_basis_change_matrix(p_in=0, p_out=2))
                exp = outer([C1 @ v if i == axis else v for i, v in enumerate(vecs)])
                e = float(np.max(np.abs(Cnd @ flat - exp)))
                r.check(e <= 1e-11 * max(1.0, float(np.max(np.abs(exp)))), 'nd-basis-change-is-tensor-product', f'{tag}: basis change along axis {axis} is not a Kronecker product (err {e:.3e})')
    # transforms: separable physical data
    phys = [rng.standard_normal(n) for n in Ns]
    U = np.zeros((1, *Ns), dtype=complex if 'fft' in bases else float)
    U[0] = outer(phys).reshape(Ns)
    Uh = H.transform(U.copy())
    exp_h = outer([np.asarray(ax.transform(v.astype(complex) if b == 'fft' else v.copy())) for ax, v, b in zip(one, phys, bases)]).reshape(Ns)
    e = float(np.max(np.abs(np.asarray(Uh)[0] - exp_h)))
    r.check(e <= 1e-10 * max(1.0, float(np.max(np.abs(exp_h)))), 'nd-transform-is-tensor-product', f'{tag}: N-D transform of separable data is not the product of the 1-D transforms (err {e:.3e})')
    Ub = H.itransform(np.array(Uh, copy=True))
    e = float(np.max(np.abs(np.asarray(Ub) - U)))
    r.check(e <= 1e-10 * max(1.0, float(np.max(np.abs(U)))), 'transform-roundtrip', f'{tag}: N-D itransform(transform(u)) != u (err {e:.3e})')
    r.nontrivial = True
    r.observe('helper', 'nd')
    r.observe('nd_bases', '/'.join(bases))
    r.sample = dict(case={k: v for k, v in case.items() if not k.startswith('_')})


def run_case(case):
    r = Result(case)
    if case['kind'] == 'cheb':
        run_cheb(case, r, ultra=False)
    elif case['kind'] == 'ultra':
        run_cheb(case, r, ultra=True)
    elif case['kind'] == 'fft':
        run_fft(case, r)
    else:
        run_nd(case, r)
    r.count('kind:' + case['kind'])
    return r


def finalize(agg):
    out = []
    c = agg['counters']
    for k in ('oracle:differentiation', 'oracle:conversions-inverse', 'oracle:conversions-compose', 'oracle:ultra-derivative-function', 'oracle:fourier-D-is-(ik)^p', 'oracle:integration-matrix',
              'oracle:dirichlet-row', 'oracle:neumann-row', 'oracle:nd-differentiation-is-tensor-product', 'oracle:nd-transform-is-tensor-product', 'oracle:transform-roundtrip'):
        if c.get(k, 0) == 0:
            out.append(f'monitor {k} never evaluated')
    if c.get('oracle:nd-operator-is-tensor-product', 0) == 0:
        out.append('axis-parameterised N-D operators never compared')
    return out
