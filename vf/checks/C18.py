"""C18 — finite-difference stencils and matrices are exact to their stated order.

Monitor: results of get_finite_difference_stencil / get_finite_difference_matrix / get_1d_grid are judged
in exact rational arithmetic (fractions.Fraction of the delivered floats) against monomial moments.
"""

import itertools
from fractions import Fraction as Fr
from math import factorial

import numpy as np

from vf.core import Result

PROPERTY = 'C18'
LEVEL = 'exploration'
TECHNIQUE = 'runtime contract on helper results, exact rational (Fraction) moment oracle'
RULE = (
    'one case = one call configuration (derivative, order, stencil type or user offsets, size, dx, bc, bc_params, dim); '
    'stencil grid derivative 1..4 x order 1..8 x 4 layouts x all offset subsets of -4..4 (size 2..6) enumerated (thorough) or sampled (quick); '
    'non-trivial = the helper returned and at least one moment/row oracle was evaluated; distinct by configuration'
)
ASSUMPTIONS = [
    'Fraction arithmetic on the float results is exact; tolerance 1e-9*max|c| (stencils with cond(Taylor matrix) > 1e10 use 1e-6) absorbs the float solve',
    'designed exactness degree: interior derivative+order-1 (user offsets: n-1); Dirichlet shifted closure derivative+order-1; '
    'Neumann min(neumann_bc_order, derivative+order-1); reduce=True row i: derivative+2(i+1)-1',
]
EXHAUSTIVE = {'quick': False, 'thorough': False}
TYPES = ['center', 'forward', 'backward', 'upwind']


def admissible(d, order, typ):
    if typ == 'center' and d % 2 == 0 and order % 2 == 1:
        return False
    return True


def expected_steps(d, order, typ):
    if typ == 'center':
        n = order + d - (d + 1) % 2
        return list(range(-(n // 2), n - n // 2))
    n = order + d
    if typ == 'forward':
        return list(range(n))
    if typ == 'backward':
        return list(range(-(n - 1), 1))
    if n <= 3:
        return list(range(-(n - 1), 1))
    return list(range(-(n - 2), 2))


def cases(tier, seed):
    rng = np.random.default_rng(seed + 1818)
    cs = []
    # --- stencil cases
    st = []
    for d in range(1, 5):
        for order in range(1, 9):
            for typ in TYPES:
                if admissible(d, order, typ):
                    st.append(dict(kind='stencil', d=d, order=order, typ=typ))
    user = []
    for k in range(2, 7):
        for sub in itertools.combinations(range(-4, 5), k):
            for d in range(1, 5):
                if d < k:
                    user.append(dict(kind='stencil', d=d, steps=list(sub)))
    if tier == 'quick':
        idx = rng.choice(len(user), 250, replace=False)
        user = [user[i] for i in idx]
    # the caller may pass the offsets in any order: permute (every permutation for <= 4 offsets in thorough, seeded ones otherwise)
    perm_user = []
    for u in user:
        k = len(u['steps'])
        if tier == 'thorough' and k <= 4:
            for pm in itertools.permutations(u['steps']):
                perm_user.append(dict(u, steps=list(pm)))
        else:
            for _ in range(2):
                perm_user.append(dict(u, steps=[int(x) for x in rng.permutation(u['steps'])]))
    cs += st + user + perm_user
    # --- matrix cases
    mats = []
    bcs = ['periodic', 'dirichlet', 'neumann', ('dirichlet', 'neumann'), ('neumann', 'dirichlet')]
    for d in range(1, 5):
        for order in range(1, 9):
            for typ in TYPES:
                if not admissible(d, order, typ):
                    continue
                n = len(expected_steps(d, order, typ))
                for bc in bcs:
                    for reduce in (False, True):
                        if bc == 'periodic' and reduce:
                            continue
                        if reduce and typ != 'center':
                            continue
                        for size in sorted({n, n + 1, n + 3, 24}):
                            if size < n:
                                continue
                            mats.append(dict(kind='matrix', d=d, order=order, typ=typ, bc=bc, reduce=reduce, size=size, dim=1))
    usermats = []
    for k in range(2, 7):
        for sub in itertools.combinations(range(-4, 5), k):
            for d in range(1, 4):
                if d < k:
                    w = sub[-1] - sub[0] + 1
                    usermats.append(dict(kind='matrix', d=d, order=k - d, steps=list(sub), bc='periodic', reduce=False, size=int(max(w, max(abs(sub[0]), abs(sub[-1])) + 1) + rng.integers(0, 6)), dim=1))
    nd = []
    for d in (1, 2, 3):
        for order in (2, 4):
            for typ in ('center', 'upwind'):
                for bc in ('periodic', 'dirichlet', 'neumann'):
                    for dim in (2, 3):
                        n = len(expected_steps(d, order, typ))
                        nd.append(dict(kind='matrix', d=d, order=order, typ=typ, bc=bc, reduce=False, size=n + 1, dim=dim))
    for um in list(usermats):
        usermats.append(dict(um, steps=[int(x) for x in rng.permutation(um['steps'])]))
    sides = []
    for d in range(1, 4):
        for order in range(1, 7):
            for typ in ('center', 'upwind'):
                if not admissible(d, order, typ):
                    continue
                n = len(expected_steps(d, order, typ))
                for bc in ('dirichlet', 'neumann', ('dirichlet', 'neumann'), ('neumann', 'dirichlet')):
                    for rep in range(2):
                        sp = []
                        for iS in (0, 1):
                            pdict = {}
                            if rng.random() < 0.6:
                                pdict['val'] = True
                            if rng.random() < 0.5 and typ == 'center' and d <= 2:
                                pdict['reduce'] = bool(rng.random() < 0.6)
                            if rng.random() < 0.4:
                                pdict['neumann_bc_order'] = int(rng.integers(1, 5))
                            sp.append(pdict)
                        sides.append(dict(kind='sides', d=d, order=order, typ=typ, bc=bc, size=int(n + 4 + rng.integers(0, 6)), sp=sp, dx=float(rng.choice([1.0, 0.5, 0.125, 0.3])), _cost=n * 20))
    if tier == 'quick':
        sides = [sides[i] for i in rng.choice(len(sides), 200, replace=False)]
    cs += sides
    if tier == 'quick':
        mats = [mats[i] for i in rng.choice(len(mats), 500, replace=False)]
        usermats = [usermats[i] for i in rng.choice(len(usermats), 300, replace=False)]
        nd = [nd[i] for i in rng.choice(len(nd), 24, replace=False)]
    for m in mats + usermats + nd:
        m['dx'] = float(rng.choice([1.0, 0.5, 0.125, 0.1, 1.0 / (m['size'] + 1), float(rng.uniform(0.01, 2))]))
        m['val'] = 'poly'
        m['nbo'] = None if rng.random() < 0.6 else int(min(m['size'], rng.integers(1, 7)))
        m['_cost'] = m['size'] ** (2 if m['dim'] == 1 else m['dim'] + 1)
    cs += mats + usermats + nd
    # --- grid cases
    for i in range(40 if tier == 'quick' else 400):
        size = int(rng.integers(1, 200))
        bc = str(rng.choice(['periodic', 'dirichlet', 'neumann', 'dirichlet-zero', 'neumann-zero']))
        l = float(rng.uniform(-10, 10))
        cs.append(dict(kind='grid', size=size, bc=bc, left=l, right=l + float(10 ** rng.uniform(-2, 2))))
    return cs


def exact_weights(steps, d):
    n = len(steps)
    A = [[Fr(s) ** k for s in steps] for k in range(n)]
    b = [Fr(factorial(d)) if k == d else Fr(0) for k in range(n)]
    # gaussian elimination in Fractions
    for c in range(n):
        p = next(r for r in range(c, n) if A[r][c] != 0)
        A[c], A[p] = A[p], A[c]
        b[c], b[p] = b[p], b[c]
        for r2 in range(n):
            if r2 != c and A[r2][c] != 0:
                f = A[r2][c] / A[c][c]
                A[r2] = [x - f * y for x, y in zip(A[r2], A[c])]
                b[r2] -= f * b[c]
    return [b[i] / A[i][i] for i in range(n)]


def moment_check(r, coeff, steps, d, D, clause, tol_scale, what):
    """sum_j c_j s_j^k == k! delta_{kd} for k <= D, in Fractions of the float weights."""
    cf = [Fr(float(c)) for c in coeff]
    cmax = max(abs(float(c)) for c in coeff)
    for k in range(D + 1):
        got = sum(c * Fr(int(s)) ** k for c, s in zip(cf, steps))
        exact = Fr(factorial(d)) if k == d else Fr(0)
        scale = max(sum(abs(float(c)) * abs(int(s)) ** k for c, s in zip(coeff, steps)), cmax, 1.0)
        err = abs(float(got - exact))
        r.check(err <= tol_scale * scale, clause, f'{what}: moment k={k} of stencil is off by {err:.3e} (scale {scale:.2e})', degree=k)


def run_stencil(case, r):
    from pySDC.helpers.problem_helper import get_finite_difference_stencil

    d = case['d']
    if 'steps' in case:
        steps_in = np.array(case['steps'])
        coeff, steps = get_finite_difference_stencil(derivative=d, steps=steps_in)
        exp = sorted(case['steps'])
        D = len(exp) - 1
        what = f'd={d} steps={case["steps"]}'
    else:
        coeff, steps = get_finite_difference_stencil(derivative=d, order=case['order'], stencil_type=case['typ'])
        exp = expected_steps(d, case['order'], case['typ'])
        D = d + case['order'] - 1
        what = f'd={d} order={case["order"]} {case["typ"]}'
    r.key = what
    r.check(list(map(int, steps)) == exp and len(coeff) == len(exp), 'stencil-steps', f'{what}: offsets {list(steps)} expected {exp}')
    if r.violations:
        return
    ex = exact_weights(exp, d)
    cmax = max(abs(float(x)) for x in ex)
    V = np.array([[float(s) ** k / factorial(k) for s in exp] for k in range(len(exp))])
    cond = np.linalg.cond(V)
    tol = 1e-9 if cond < 1e10 else 1e-6
    err = max(abs(float(Fr(float(c)) - e)) for c, e in zip(coeff, ex))
    r.check(err <= tol * cmax, 'stencil-weights', f'{what}: weights differ from exact rational weights by {err:.3e} (max|c| {cmax:.2e})')
    moment_check(r, coeff, exp, d, D, 'stencil-moments', tol, what)
    r.nontrivial = True
    r.observe('stencil_points', len(exp))
    r.sample = dict(case=_pub(case), weights=[float(c) for c in coeff], exact=[str(e) for e in ex])


def _pub(case):
    return {k: v for k, v in case.items() if not k.startswith('_')}


def poly_vals(xs, xc, k):
    return [(x - xc) ** k for x in xs]


def dpoly(x, xc, k, d):
    if k < d:
        return Fr(0)
    return Fr(factorial(k), factorial(k - d)) * (x - xc) ** (k - d)


def run_matrix(case, r):
    from pySDC.helpers.problem_helper import get_finite_difference_matrix

    d, order, size, dim, dx, reduce = case['d'], case['order'], case['size'], case['dim'], case['dx'], case['reduce']
    bc = tuple(case['bc']) if isinstance(case['bc'], list) else case['bc']
    typ = case.get('typ')
    steps_in = np.array(case['steps']) if 'steps' in case else None
    exp = sorted(case['steps']) if 'steps' in case else expected_steps(d, order, typ)
    D_int = (len(exp) - 1) if 'steps' in case else d + order - 1
    what = f'd={d} order={order} {typ or case["steps"]} size={size} dx={dx} bc={bc} reduce={reduce} dim={dim} nbo={case.get("nbo")}'
    r.key = what
    bcs = bc if isinstance(bc, tuple) else (bc, bc)
    nbo = case.get('nbo') or order
    DX = Fr(dx)
    left = Fr(0)
    periodic = bcs[0] == 'periodic'
    xs = [left + DX * i for i in range(size)] if periodic else [left + DX * (i + 1) for i in range(size)]
    xL, xR = left, left + DX * (size + 1)
    ex = exact_weights(exp, d)
    cmax = max(abs(float(x)) for x in ex)
    V = np.array([[float(s) ** k / factorial(k) for s in exp] for k in range(len(exp))])
    tol = 1e-9 if np.linalg.cond(V) < 1e10 else 1e-6

    def call(pk=None, xc=None, dim_=1):
        """call the SUT with boundary values taken from the monomial (x-xc)^pk"""
        pars = []
        for iS, side in enumerate(bcs):
            p = {}
            if side != 'periodic':
                xb = xL if iS == 0 else xR
                if pk is None:
                    v = 0.0
                elif 'dirichlet' in side:
                    v = float((xb - xc) ** pk)
                else:
                    v = float(dpoly(xb, xc, pk, 1))
                p = dict(val=v, reduce=reduce)
                if case.get('nbo'):
                    p['neumann_bc_order'] = case['nbo']
            pars.append(p)
        kw = dict(derivative=d, order=order, stencil_type=typ, steps=steps_in, dx=dx, size=size, dim=dim_, bc=bc)
        if not periodic:
            kw['bc_params'] = pars
        return get_finite_difference_matrix(**kw)

    try:
        A0, b0 = call()
    except ValueError as e:
        if reduce and d >= 3:
            r.check(False, 'closure-exact', f'{what}: reduced closure cannot be placed: {type(e).__name__}: {e}', mech='reduce-closure-misaligned-derivative-ge-3')
            return
        raise
    A0 = A0.toarray() if dim == 1 else None
    if dim > 1:
        A1, b1 = call(dim_=1)
        A1 = A1.toarray()
        And, bnd = call(dim_=dim)
        And = And.toarray()
        I = np.eye(size)
        if dim == 2:
            K = np.kron(A1, I) + np.kron(I, A1)
        else:
            K = np.kron(np.kron(A1, I), I) + np.kron(np.kron(I, A1), I) + np.kron(np.kron(I, I), A1)
        e = np.max(np.abs(And - K))
        r.check(And.shape == K.shape and e <= 1e-12 * max(1.0, np.max(np.abs(K))), 'nd-kronecker', f'{what}: n-D matrix differs from the Kronecker sum of the 1-D matrix by {e:.3e}')
        r.check(bnd.shape == (size**dim,) and not np.any(bnd), 'nd-b-homogeneous', f'{what}: boundary vector for homogeneous data not zero / wrong shape')
        # separable polynomial check: A (p(x) q(y)) = p'' q + p q'' on periodic? polynomials are not periodic -> only Kronecker structure is claimed here
        r.nontrivial = True
        r.observe('dim', dim)
        r.sample = dict(case=_pub(case), kron_err=float(e))
        return
    r.check(A0.shape == (size, size) and b0.shape == (size,), 'shape', f'{what}: shapes {A0.shape} {b0.shape}')
    if r.violations:
        return
    scaleA = float(DX) ** d
    # ---------------- periodic: exact circulant
    if periodic:
        C = np.zeros((size, size))
        for c, s in zip(ex, exp):
            for i in range(size):
                C[i, (i + s) % size] += float(c)
        got = A0 * scaleA
        e = np.max(np.abs(got - C))
        contiguous = exp == list(range(exp[0], exp[-1] + 1))
        r.check(e <= tol * cmax, 'periodic-circulant', f'{what}: periodic matrix is not the circulant of the stencil, max deviation {e:.3e} (max|c| {cmax:.2e})',
                mech=None, contiguous=contiguous)
        r.check(not np.any(b0), 'periodic-b', f'{what}: boundary vector not zero for periodic bc')
        r.nontrivial = True
        r.observe('bc', 'periodic')
        r.observe('contiguous_offsets', contiguous)
        r.sample = dict(case=_pub(case), circulant_err=float(e))
        return
    # ---------------- non periodic
    wL, wR = max(0, -min(exp)), max(0, max(exp))
    # interior rows apply exactly the stencil
    for i in range(wL, size - wR):
        row = np.zeros(size)
        for c, s in zip(ex, exp):
            row[i + s] = float(c)
        e = np.max(np.abs(A0[i] * scaleA - row))
        r.check(e <= tol * cmax, 'interior-rows', f'{what}: interior row {i} is not the stencil (dev {e:.3e})')
        r.check(b0[i] == 0, 'interior-b', f'{what}: b[{i}] nonzero at interior row')
    # boundary rows: polynomial reproduction with the polynomial's own boundary data, per row
    zone = [(i, 0) for i in range(wL)] + [(size - 1 - i, 1) for i in range(wR)]
    AF = None
    for (row, iS) in zone:
        side = bcs[iS]
        i = row if iS == 0 else size - 1 - row
        if reduce:
            Drow = d + 2 * (i + 1) - 1
            misaligned = d >= 3  # reduced centred stencil is wider than the points available next to the boundary
        else:
            Drow = d + order - 1
            misaligned = False
        if 'neumann' in side:
            Drow = min(Drow, nbo)
        xc = xs[row]
        for k in range(Drow + 1):
            A, b = call(pk=k, xc=xc)
            A = A.toarray()
            # exact: row . p + b[row] == p^(d)(x_row)
            got = sum(Fr(float(A[row, j])) * (xs[j] - xc) ** k for j in range(size) if A[row, j] != 0) + Fr(float(b[row]))
            exact = dpoly(xc, xc, k, d)
            mag = sum(abs(float(A[row, j])) * abs(float((xs[j] - xc) ** k)) for j in range(size)) + abs(float(b[row])) + 1.0
            err = abs(float(got - exact))
            mech = 'reduce-closure-misaligned-derivative-ge-3' if (reduce and misaligned) else None
            r.check(err <= max(tol, 1e-9) * mag * 10, 'closure-exact', f'{what}: boundary row {row} ({side}) does not reproduce d^{d}/dx^{d} (x-x_row)^{k}: off by {err:.3e} (magnitude {mag:.2e}, designed degree {Drow})', mech=mech, row=row, degree=k)
            r.observe('closure', f'{side}/{"reduce" if reduce else "shift"}')
    r.nontrivial = True
    r.observe('bc', str(bc))
    r.sample = dict(case=_pub(case), zone_rows=len(zone))


def pmul(a, b):
    out = [Fr(0)] * (len(a) + len(b) - 1)
    for i, x in enumerate(a):
        for j, y in enumerate(b):
            out[i + j] += x * y
    return out


def pval(c, x):
    v = Fr(0)
    for a in reversed(c):
        v = v * x + a
    return v


def pder(c, n=1):
    for _ in range(n):
        c = [c[i] * i for i in range(1, len(c))] or [Fr(0)]
    return c


def ppow(x0, k):
    out = [Fr(1)]
    for _ in range(k):
        out = pmul(out, [-x0, Fr(1)])
    return out


def run_sides(case, r):
    """per-side boundary parameter dictionaries with keys present or omitted independently on each side: an omitted key must
    mean the documented default (val=0, reduce=False, neumann_bc_order=order) whatever the other side says"""
    from pySDC.helpers.problem_helper import get_finite_difference_matrix

    d, order, typ, size, dx = case['d'], case['order'], case['typ'], case['size'], case['dx']
    bc = tuple(case['bc']) if isinstance(case['bc'], list) else case['bc']
    bcs = bc if isinstance(bc, tuple) else (bc, bc)
    sp = case['sp']
    what = f'sides d={d} order={order} {typ} size={size} dx={dx} bc={bc} params={sp}'
    r.key = what
    exp = expected_steps(d, order, typ)
    DX = Fr(dx)
    xs = [DX * (i + 1) for i in range(size)]
    xb = [Fr(0), DX * (size + 1)]
    wL, wR = max(0, -min(exp)), max(0, max(exp))
    eff = [dict(reduce=bool(p_.get('reduce', False)), nbo=int(p_.get('neumann_bc_order', order)), has_val='val' in p_) for p_ in sp]
    if any(e['nbo'] > size for e in eff):
        r.check(True, 'noop', '')
        return
    zone = [(i, 0) for i in range(wL)] + [(size - 1 - i, 1) for i in range(wR)]
    for (row, iS) in zone:
        side = bcs[iS]
        i = row if iS == 0 else size - 1 - row
        e = eff[iS]
        Drow = (d + 2 * (i + 1) - 1) if e['reduce'] else (d + order - 1)
        if 'neumann' in side:
            Drow = min(Drow, e['nbo'])
        xc = xs[row]
        for k in range(Drow + 1):
            # polynomial of degree k; if this side omits 'val' it must have a zero boundary datum on this side,
            # and on the other side the datum is whatever (its value is passed if that side takes 'val', else forced to zero too)
            poly = ppow(xc, k)
            need = []
            for s_ in (0, 1):
                if not eff[s_]['has_val']:
                    need.append(s_)
            deg_lost = 0
            poly = [Fr(1)]
            for s_ in need:
                mult = 1 if 'dirichlet' in bcs[s_] else 2
                poly = pmul(poly, ppow(xb[s_], mult))
                deg_lost += mult
            if deg_lost > k:
                if k == 0 and all('neumann' in bcs[s_] for s_ in need):
                    poly = [Fr(1)]  # constants have zero Neumann datum
                else:
                    continue
            else:
                poly = pmul(poly, ppow(xc, k - deg_lost))
            pars = []
            for s_ in (0, 1):
                pd = {}
                if 'val' in sp[s_]:
                    pd['val'] = float(pval(poly, xb[s_]) if 'dirichlet' in bcs[s_] else pval(pder(poly), xb[s_]))
                if 'reduce' in sp[s_]:
                    pd['reduce'] = sp[s_]['reduce']
                if 'neumann_bc_order' in sp[s_]:
                    pd['neumann_bc_order'] = sp[s_]['neumann_bc_order']
                pars.append(pd)
            A, b = get_finite_difference_matrix(derivative=d, order=order, stencil_type=typ, dx=dx, size=size, dim=1, bc=bc, bc_params=pars)
            A = A.toarray()
            got = sum(Fr(float(A[row, j])) * pval(poly, xs[j]) for j in range(size) if A[row, j] != 0) + Fr(float(b[row]))
            exact = pval(pder(poly, d), xc)
            mag = sum(abs(float(A[row, j])) * abs(float(pval(poly, xs[j]))) for j in range(size)) + abs(float(b[row])) + 1.0
            err = abs(float(got - exact))
            r.check(err <= 1e-8 * mag, 'closure-exact-per-side-params', f'{what}: boundary row {row} (side {iS}: {side}, effective {e}) does not reproduce the derivative of a degree-{k} polynomial: off by {err:.3e} (magnitude {mag:.2e}, designed degree {Drow})', row=row, degree=k)
            r.nontrivial = True
    r.observe('sides', f'{bc}')
    r.sample = dict(case=_pub(case))


def run_grid(case, r):
    from pySDC.helpers.problem_helper import get_1d_grid

    size, bc, l, rr = case['size'], case['bc'], case['left'], case['right']
    dx, xs = get_1d_grid(size, bc, l, rr)
    L = Fr(rr) - Fr(l)
    eps = 2.0**-52
    if bc == 'periodic':
        edx = L / size
        ex = [Fr(l) + edx * i for i in range(size)]
    else:
        edx = L / (size + 1)
        ex = [Fr(l) + edx * (i + 1) for i in range(size)]
    r.key = f'grid {size} {bc} {l} {rr}'
    r.check(abs(float(Fr(float(dx)) - edx)) <= 4 * eps * float(edx) * (1 + (abs(l) + abs(rr)) / float(L)), 'grid-dx', f'dx {dx} vs {float(edx)}')
    r.check(len(xs) == size, 'grid-size', 'wrong number of grid points')
    e = max(abs(float(Fr(float(x)) - y)) for x, y in zip(xs, ex))
    r.check(e <= 8 * eps * max(abs(l), abs(rr), float(L)), 'grid-points', f'grid points off by {e:.3e}')
    r.nontrivial = True
    r.sample = dict(case=_pub(case))


def run_case(case):
    r = Result(case)
    if case['kind'] == 'stencil':
        run_stencil(case, r)
    elif case['kind'] == 'matrix':
        run_matrix(case, r)
    elif case['kind'] == 'sides':
        run_sides(case, r)
    else:
        run_grid(case, r)
    r.count('kind:' + case['kind'])
    return r


def finalize(agg):
    out = []
    c = agg['counters']
    for k in ('oracle:stencil-moments', 'oracle:periodic-circulant', 'oracle:interior-rows', 'oracle:closure-exact', 'oracle:nd-kronecker', 'oracle:grid-points', 'oracle:closure-exact-per-side-params'):
        if c.get(k, 0) == 0:
            out.append(f'monitor {k} never evaluated')
    return out
