"""C13 — data types have value semantics; runs never corrupt caller or logged data.

kind=ops : generated operation programs over the solution data types; after every operation the digests of all other
           live names must be unchanged, result types / aliasing / copy independence / component views / abs are judged.
kind=run : digests of the caller's u0, of every logged solution at log time, at the end of the run and after a second run.
"""

import numpy as np

from vf.core import Result, digest

PROPERTY = 'C13'
LEVEL = 'exploration'
TECHNIQUE = 'alias/digest tracking over generated operation programs on the data types + digest-at-log-time monitors on real runs'
RULE = (
    'kind=ops: one seeded program of 10-40 operations (binary/unary/augmented arithmetic with scalars, arrays and other objects, slicing, component access, numpy functions, copy construction) '
    'on one data type (mesh, imex_mesh, comp2_mesh, MeshDAE, particles, fields, acceleration) and shape (0-D..3-D, real/complex); '
    'kind=run: one (sweeper, controller, levels, steps, logging hook) run followed by a second run on the same controller; non-trivial = >=5 operations judged / >=1 logged value tracked; distinct by program seed / configuration'
)
ASSUMPTIONS = [
    'bit identity via blake2 digests of the raw buffers; aliasing via numpy.shares_memory',
    'augmented assignment on the mesh types rebinds the name (documented mechanism: __array_ufunc__ drops `out`), an alias must keep the old bytes',
    'particle mass/charge arrays are constants and not part of the value-semantics claim',
]
EXHAUSTIVE = {'quick': False, 'thorough': False}
MESH_TYPES = ['mesh', 'imex_mesh', 'comp2_mesh', 'MeshDAE']
PART_TYPES = ['particles', 'fields', 'acceleration']


def cases(tier, seed):
    rng = np.random.default_rng(seed + 1313)
    cs = []
    n = 600 if tier == 'quick' else 12000
    for i in range(n):
        t = (MESH_TYPES + PART_TYPES)[i % 7]
        nd = int(rng.integers(0, 4))
        shape = [int(rng.integers(1, 5)) for _ in range(nd)]
        cs.append(dict(kind='ops', type=t, shape=shape, cplx=bool(rng.random() < 0.4), single=bool(rng.random() < 0.3), nops=int(rng.integers(10, 41)), seed=int(rng.integers(0, 2**31)), _cost=1))
    for i in range(60 if tier == 'quick' else 1200):
        cs.append(dict(kind='run', which=i % 14, procs=int(rng.integers(1, 5)), nlev=int(rng.choice([1, 1, 2])), nsteps=int(rng.integers(1, 7)), hook=['step', 'iter'][i % 2], seed=int(rng.integers(0, 2**31)), _cost=20))
    return cs


def get_cls(name):
    if name in ('mesh', 'imex_mesh', 'comp2_mesh'):
        import pySDC.implementations.datatype_classes.mesh as m

        return getattr(m, name)
    if name == 'MeshDAE':
        from pySDC.projects.DAE.misc.meshDAE import MeshDAE

        return MeshDAE
    import pySDC.implementations.datatype_classes.particles as p

    return getattr(p, name)


def bufs(o):
    """the raw buffers that make up the value of an object"""
    n = type(o).__name__
    if n == 'particles':
        return [np.asarray(o.pos), np.asarray(o.vel)]
    if n == 'fields':
        return [np.asarray(o.elec), np.asarray(o.magn)]
    return [np.asarray(o)]


def allbufs(o):
    """every array an object owns (particles also carry charges and masses)"""
    out = bufs(o)
    for nm in ('q', 'm'):
        if type(o).__name__ in ('particles', 'fields', 'acceleration') and isinstance(getattr(o, nm, None), np.ndarray):
            out = out + [getattr(o, nm)]
    return out


def dg(o):
    return tuple(digest(b) for b in bufs(o))


def shares(a, b):
    return any(np.shares_memory(x, y) for x in bufs(a) for y in bufs(b))


def run_ops_mesh(case, r):
    cls = get_cls(case['type'])
    rng = np.random.default_rng(case['seed'])
    dtype = np.dtype(('complex64' if case.get('single') else 'complex128') if case['cplx'] else ('float32' if case.get('single') else 'float64'))
    hi = np.dtype('complex128' if case['cplx'] else 'float64')
    shape = tuple(case['shape'])
    init = (shape if shape else (), None, dtype) if case['type'] == 'mesh' else ((shape if shape else (1,)), None, dtype)
    multi = case['type'] != 'mesh'
    tag = f"{case['type']}/{shape}/{dtype.name}"
    r.key = f"ops/{tag}/{case['seed']}"

    def rnd(shp):
        a = rng.standard_normal(shp)
        return a + 1j * rng.standard_normal(shp) if case['cplx'] else a

    def fresh():
        o = cls(init)
        o[...] = rnd(np.asarray(o).shape)
        return o

    def fresh_hi():
        # same type and shape in the higher precision: mixed-precision operands
        o = cls((init[0], None, hi))
        o[...] = rnd(np.asarray(o).shape)
        return o

    if case['type'] == 'mesh' and shape == ():
        # 0-dimensional meshes: only construction / copy construction / arithmetic type are probed
        z0 = cls(init, val=1.5)
        try:
            z1 = cls(z0)
            r.check(type(z1) is cls and np.array_equal(np.asarray(z1), np.asarray(z0)) and not np.shares_memory(np.asarray(z1), np.asarray(z0)), 'copy-construction', f'{tag}: 0-D copy is not an equal independent object')
        except IndexError as e:
            r.check(False, 'copy-construction', f'{tag}: copy construction of a 0-dimensional mesh raises IndexError: {e}', mech='mesh-copy-constructor-fails-for-0d')
        r.nontrivial = True
        return
    names = {f'v{i}': fresh() for i in range(4)}
    aliases = {}
    fullshape = np.asarray(names['v0']).shape

    def snapshot(exclude=()):
        return {k: dg(v) for k, v in list(names.items()) + list(aliases.items()) if k not in exclude}

    def unchanged(before, what, exclude=()):
        for k, v in list(names.items()) + list(aliases.items()):
            if k in exclude or k not in before:
                continue
            r.check(dg(v) == before[k], 'operands-and-bystanders-unchanged', f'{tag}: {what} modified {k}')

    ops = 0
    for step in range(case['nops']):
        kind = int(rng.integers(0, 13))
        keys = list(names)
        a = keys[int(rng.integers(0, len(keys)))]
        b = keys[int(rng.integers(0, len(keys)))]
        before = snapshot()
        if kind in (0, 1, 2):  # binary with mesh / scalar / ndarray
            other = [names[b], float(rng.standard_normal()) if not case['cplx'] else complex(rng.standard_normal(), rng.standard_normal()), rnd(fullshape)][kind]
            if kind == 1 and rng.random() < 0.3:
                # neutral and other special scalars: a shortcut for "nothing to do" must still hand out new storage
                other = [0.0, 1.0, -1.0, 1, 0][int(rng.integers(0, 5))]
                r.count('neutral_scalar_operations')
            opn = int(rng.integers(0, 3))
            res = [names[a] + other, names[a] - other, names[a] * other][opn]
            pa, po = names[a].view(np.ndarray), (other.view(np.ndarray) if isinstance(other, np.ndarray) else other)
            exp = [pa + po, pa - po, pa * po][opn]
            what = f'binary op {["+", "-", "*"][opn]} ({["mesh", "scalar", "ndarray"][kind]} operand)'
            unchanged(before, what)
            r.check(type(res) is cls, 'result-type', f'{tag}: {what} returned {type(res).__name__}')
            r.check(np.array_equal(np.asarray(res), exp), 'result-value', f'{tag}: {what} gives a wrong value')
            r.check(not shares(res, names[a]) and not (kind == 0 and shares(res, names[b])), 'result-independent', f'{tag}: result of {what} shares memory with an operand')
            if kind == 1 and not case['cplx'] and rng.random() < 0.5:
                # real data combined with a complex scalar (phase factors, complex time steps): the result changes its dtype, it
                # is still the same data type with value semantics (not stored: the program itself stays real)
                zc = complex(rng.standard_normal(), rng.standard_normal())
                wz = int(rng.integers(0, 4))
                rz = [names[a] * zc, zc + names[a], names[a] - zc, np.exp(1j * names[a])][wz]
                ez = [pa * zc, zc + pa, pa - zc, np.exp(1j * pa)][wz]
                whatz = f'real {cls.__name__} combined with a complex scalar (variant {wz})'
                unchanged(before, whatz)
                r.check(type(rz) is cls, 'result-type', f'{tag}: {whatz} returned {type(rz).__name__}')
                r.check(np.array_equal(np.asarray(rz), ez), 'result-value', f'{tag}: {whatz} gives a wrong value')
                r.check(not shares(rz, names[a]), 'result-independent', f'{tag}: result of {whatz} shares memory with its operand')
                r.count('mixed_real_complex_operations')
            names[f'v{int(rng.integers(0, 4))}'] = res
        elif kind == 3:  # reflected scalar ops and unary minus
            s = float(rng.uniform(0.5, 2)) if rng.random() < 0.7 else [1.0, 0.0, -1.0][int(rng.integers(0, 3))]
            res = [s * names[a], s + names[a], -names[a], s - names[a]][int(rng.integers(0, 4))]
            unchanged(before, 'reflected/unary op')
            r.check(type(res) is cls and not shares(res, names[a]), 'result-type', f'{tag}: reflected/unary op returned {type(res).__name__} or aliases its operand')
            names[f'v{int(rng.integers(0, 4))}'] = res
        elif kind in (4, 5):  # augmented assignment with an alias present
            al = f'alias_{a}'
            aliases[al] = names[a]
            before = snapshot()
            old_bytes = dg(names[a])
            other = names[b] if kind == 4 else float(rng.uniform(0.5, 2))
            if case.get('single') and rng.random() < 0.6:
                other = fresh_hi() if kind == 4 else hi.type(rng.uniform(0.5, 2))  # higher-precision operand / numpy scalar
            po = other.view(np.ndarray) if isinstance(other, np.ndarray) else other
            exp = names[a].view(np.ndarray) + po if step % 2 else names[a].view(np.ndarray) * po
            x = names[a]
            if step % 2:
                x += other
            else:
                x *= other
            names[a] = x
            r.check(dg(aliases[al]) == old_bytes, 'augmented-assignment-keeps-alias', f'{tag}: `x {"+=" if step % 2 else "*="} y` changed the bytes another name still refers to')
            r.check(np.array_equal(np.asarray(x), exp) and type(x) is cls, 'augmented-assignment-value', f'{tag}: augmented assignment gives a wrong value / type {type(x).__name__}')
            unchanged(before, 'augmented assignment', exclude=(a,))
            del aliases[al]
        elif kind == 6:  # copy construction
            c = cls(names[a])
            r.check(type(c) is cls and np.array_equal(np.asarray(c), np.asarray(names[a])) and not shares(c, names[a]), 'copy-construction', f'{tag}: cls(other) is not an equal, independent object')
            keep = dg(names[a])
            c[...] = rnd(fullshape)
            r.check(dg(names[a]) == keep, 'copy-independent', f'{tag}: writing into a copy changed the original')
            names[f'v{int(rng.integers(0, 4))}'] = c
            # copies of views with another memory layout (transposed = column-major, strided, reversed) are independent too
            src = names[a]
            arr = np.asarray(src)
            views = []
            if arr.ndim >= 2:
                views.append(('transposed', src.T))
                views.append(('column-major', np.asfortranarray(arr).view(get_cls('mesh'))))
            if arr.ndim >= 1 and arr.shape[-1] >= 2:
                views.append(('strided', src[..., ::2]))
                views.append(('reversed', src[..., ::-1]))
            for vname, v in views:
                if not isinstance(v, get_cls('mesh')):
                    continue
                base_cls = get_cls('mesh')
                cv = base_cls(v)
                r.check(np.array_equal(np.asarray(cv), np.asarray(v)) and not np.shares_memory(np.asarray(cv), np.asarray(v)), 'copy-construction', f'{tag}: mesh(other) of a {vname} view is not an equal, independent object (shares memory: {np.shares_memory(np.asarray(cv), np.asarray(v))})')
                keepv = digest(np.ascontiguousarray(np.asarray(v)))
                cv[...] = 7.0
                r.check(digest(np.ascontiguousarray(np.asarray(v))) == keepv, 'copy-independent', f'{tag}: writing into the copy of a {vname} view changed the original')
                r.count('layout_view_copies')
        elif kind == 7:  # abs and norm axioms
            x, y = names[a], names[b]
            ax = abs(x)
            r.check(isinstance(ax, float) and ax == float(np.max(np.abs(np.asarray(x)))), 'abs-is-max-norm', f'{tag}: abs() = {ax!r}, max|.| = {float(np.max(np.abs(np.asarray(x))))!r}')
            s = float(rng.uniform(-3, 3))
            eps_ = 8 * float(np.finfo(dtype).eps)
            r.check(abs(x + y) <= (abs(x) + abs(y)) * (1 + eps_), 'norm-triangle', f'{tag}: triangle inequality violated')
            r.check(abs(abs(s * x) - abs(s) * abs(x)) <= eps_ * max(1.0, abs(s) * abs(x)), 'norm-homogeneous', f'{tag}: abs(s x) != |s| abs(x)')
            z = cls(x)
            z[...] = 0
            r.check(abs(z) == 0.0 and (abs(x) > 0 or not np.any(np.asarray(x))), 'norm-definite', f'{tag}: abs not definite')
            unchanged(before, 'abs')
        elif kind == 8 and multi:  # component views
            comps = cls.components
            x = names[a]
            c0 = getattr(x, comps[0])
            c1 = getattr(x, comps[1])
            r.check(np.shares_memory(np.asarray(c0), np.asarray(x)) and np.shares_memory(np.asarray(c1), np.asarray(x)), 'component-is-view', f'{tag}: component accessor does not view the parent buffer')
            r.check(np.array_equal(np.asarray(c0), np.asarray(x)[0]) and np.array_equal(np.asarray(c1), np.asarray(x)[1]), 'component-order', f'{tag}: components are not rows 0 and 1 of the buffer')
            val = rnd(np.asarray(c1).shape)
            c1[...] = val
            r.check(np.array_equal(np.asarray(x)[1], val.astype(np.asarray(x).dtype)), 'component-writable', f'{tag}: writing through the component view does not reach the parent')
            unchanged(before, 'component write', exclude=(a,) + tuple(k for k, v in names.items() if v is x))
        elif kind == 11 and multi and np.asarray(names[a]).ndim >= 2 and np.asarray(names[a]).shape[1] >= 2:  # components of a non-contiguous view
            x = names[a]
            which = int(rng.integers(0, 4))
            if which == 0:
                v = x[:, ::2]
            elif which == 1:
                v = x[:, ::-1]
            elif which == 2:
                v = x[:, 1:]
            else:
                v = x.real if np.iscomplexobj(np.asarray(x)) else x[:, :1]
            if isinstance(v, cls):
                comps = cls.components
                ci = int(rng.integers(0, len(comps)))
                c = getattr(v, comps[ci])
                r.check(np.shares_memory(np.asarray(c), np.asarray(x)), 'component-is-view', f'{tag}: component {comps[ci]!r} of a non-contiguous view (variant {which}) is a copy, not a view of the buffer')
                val = rnd(np.asarray(c).shape)
                if which == 3 and np.iscomplexobj(np.asarray(x)):
                    val = np.real(val)
                c[...] = val
                got = np.asarray(v)[ci]
                r.check(np.array_equal(got, np.asarray(val).astype(got.dtype)), 'component-writable', f'{tag}: writing through component {comps[ci]!r} of a non-contiguous view (variant {which}) does not reach the buffer')
                r.count('noncontiguous_component_views')
            unchanged(before, 'component write through a view', exclude=(a,) + tuple(k for k, v_ in names.items() if v_ is x))
        elif kind == 9:  # numpy functions
            x = names[a]
            fn = [np.sin, np.exp, np.conj, np.real, np.square][int(rng.integers(0, 5))]
            with np.errstate(all='ignore'):
                res = fn(x)
                exp = fn(np.asarray(x))
            unchanged(before, f'np.{fn.__name__}')
            r.check(np.array_equal(np.asarray(res), exp, equal_nan=True), 'numpy-function-value', f'{tag}: np.{fn.__name__}(mesh) differs from the plain array result')
            if fn not in (np.real,):
                r.check(isinstance(res, cls) or isinstance(res, get_cls('mesh')), 'numpy-function-type', f'{tag}: np.{fn.__name__} returned {type(res).__name__}')
                r.check(not shares(res, x), 'numpy-function-independent', f'{tag}: np.{fn.__name__} result aliases its input')
            red = float(np.real(np.sum(np.asarray(x))))
            r.check(abs(complex(np.sum(x)) - complex(np.sum(np.asarray(x)))) <= 1e-12 * max(1.0, abs(red)), 'numpy-reduction-value', f'{tag}: np.sum(mesh) differs')
            # an explicit out= must not write into a buffer another name refers to behind its back: documented to be dropped
            y = names[b]
            keep = dg(y)
            res2 = np.add(x, 1.0, out=np.asarray(cls(y)).view(cls))
            r.check(dg(y) == keep, 'ufunc-out-does-not-touch-others', f'{tag}: np.add(..., out=copy) changed another object')
        elif kind == 10 and np.asarray(names[a]).ndim >= 1:  # slicing
            x = names[a]
            sl = x[0]
            keep = snapshot(exclude=(a,) + tuple(k for k, v in names.items() if v is x))
            y = sl + 1.0
            r.check(not np.shares_memory(np.asarray(y), np.asarray(x)), 'slice-arithmetic-independent', f'{tag}: arithmetic on a slice aliases the parent')
            unchanged(before, 'slice arithmetic')
        else:
            res = names[a] + names[b] * 2.0 - names[a]
            unchanged(before, 'compound expression')
            r.check(type(res) is cls, 'result-type', f'{tag}: compound expression returned {type(res).__name__}')
        ops += 1
    r.nontrivial = ops >= 5
    r.count('operations', ops)
    r.observe('dtype_shape', f"{case['type']}/{len(shape)}D/{dtype.name}")
    r.sample = dict(case={k: v for k, v in case.items() if not k.startswith('_')})


def run_ops_particles(case, r):
    cls = get_cls(case['type'])
    rng = np.random.default_rng(case['seed'])
    npart = max(1, int(np.prod(case['shape'] or [1])) % 5 + 1)
    init = ((3, npart), None, np.dtype('float64'))
    tag = f"{case['type']}/{npart}"
    r.key = f"ops/{tag}/{case['seed']}"

    def fresh():
        o = cls(init)
        for b in bufs(o):
            b[...] = rng.standard_normal(b.shape)
        return o

    names = {f'v{i}': fresh() for i in range(3)}
    ops = 0
    for step in range(case['nops']):
        keys = list(names)
        a, b = keys[int(rng.integers(0, 3))], keys[int(rng.integers(0, 3))]
        before = {k: dg(v) for k, v in names.items()}
        kind = int(rng.integers(0, 5))
        if kind == 0:
            res = names[a] + names[b]
            exp = [x + y for x, y in zip(bufs(names[a]), bufs(names[b]))]
        elif kind == 1:
            res = names[a] - names[b]
            exp = [x - y for x, y in zip(bufs(names[a]), bufs(names[b]))]
        elif kind == 2:
            s = float(rng.uniform(-2, 2))
            if rng.random() < 0.4:
                s = [1.0, 0.0, -1.0, 2.0][int(rng.integers(0, 4))]
                r.count('neutral_scalar_operations')
            res = s * names[a]
            exp = [s * x for x in bufs(names[a])]
        elif kind == 3:
            res = cls(names[a])
            exp = [x.copy() for x in bufs(names[a])]
        elif case['type'] == 'fields':
            res, exp = None, None  # fields do not define abs()
        else:
            ax = abs(names[a])
            r.check(abs(ax - max(float(np.max(np.abs(x))) for x in bufs(names[a]))) <= 1e-15, 'abs-is-max-norm', f'{tag}: abs() is not the maximum norm')
            r.check(abs(names[a] + names[b]) <= abs(names[a]) + abs(names[b]) + 1e-12, 'norm-triangle', f'{tag}: triangle inequality violated')
            res, exp = None, None
        for k, v in names.items():
            r.check(dg(v) == before[k], 'operands-and-bystanders-unchanged', f'{tag}: operation {kind} modified {k}')
        if res is not None:
            r.check(type(res) is cls, 'result-type', f'{tag}: operation {kind} returned {type(res).__name__}')
            r.check(all(np.array_equal(x, y) for x, y in zip(bufs(res), exp)), 'result-value', f'{tag}: operation {kind} gives a wrong value')
            r.check(not shares(res, names[a]) and not shares(res, names[b]), 'result-independent', f'{tag}: result of operation {kind} shares memory with an operand')
            if kind == 3:
                r.check(not any(np.shares_memory(x, y) for x in allbufs(res) for y in allbufs(names[a])), 'copy-independent', f'{tag}: the copy shares an array (positions, velocities, charges or masses) with the original')
                keepall = tuple(digest(x) for x in allbufs(names[a]))
                for x in allbufs(res):
                    x[...] = 7.0
                r.check(tuple(digest(x) for x in allbufs(names[a])) == keepall, 'copy-independent', f'{tag}: writing into the copy changed the original')
                r.count('particle_copies_checked')
                res = fresh()
            keep = dg(names[a])
            for x in bufs(res):
                x[...] = 7.0
            r.check(dg(names[a]) == keep, 'copy-independent', f'{tag}: writing into a result changed an operand')
            names[keys[int(rng.integers(0, 3))]] = fresh() if rng.random() < 0.5 else res
        ops += 1
    r.nontrivial = ops >= 5
    r.count('operations', ops)
    r.observe('dtype_shape', f"{case['type']}")
    r.sample = dict(case={k: v for k, v in case.items() if not k.startswith('_')})


def run_run(case, r):
    from pySDC.core.hooks import Hooks
    from pySDC.helpers.stats_helper import get_sorted
    from pySDC.implementations.controller_classes.controller_nonMPI import controller_nonMPI
    from pySDC.implementations.hooks.log_solution import LogSolution, LogSolutionAfterIteration
    from pySDC.implementations.sweeper_classes.explicit import explicit
    from pySDC.implementations.sweeper_classes.generic_implicit import generic_implicit
    from pySDC.implementations.sweeper_classes.imex_1st_order import imex_1st_order
    from pySDC.implementations.sweeper_classes.multi_implicit import multi_implicit
    from pySDC.implementations.sweeper_classes.Runge_Kutta import ARK54, DIRK43, RK4, Cash_Karp, IMEXEulerStifflyAccurate
    from pySDC.implementations.transfer_classes.TransferMesh_NoCoarse import mesh_to_mesh as nocoarse

    from vf import harness_problems as hp
    from vf.levelkit import rand_matrix

    rng = np.random.default_rng(case['seed'])
    which, procs, nlev, nsteps = case['which'], case['procs'], case['nlev'], case['nsteps']
    n = 3
    A = rand_matrix(rng, n, 'stable')
    B = rand_matrix(rng, n, 'any', scale=0.4)
    forcing = dict(c0=rng.standard_normal(n), c1=rng.standard_normal(n), w=1.3)
    table = [
        ('generic_implicit', generic_implicit, hp.DenseLinear, dict(A=A, **forcing), dict(QI='LU')),
        ('explicit', explicit, hp.DenseLinear, dict(A=A, **forcing), dict(QE='EE')),
        ('imex_1st_order', imex_1st_order, hp.DenseIMEX, dict(A=A, B=B, **forcing), dict(QI='LU', QE='EE')),
        ('multi_implicit', multi_implicit, hp.DenseTwoComp, dict(A=A, B=B, **forcing), dict(Q1='LU', Q2='LU')),
        ('RK4', RK4, hp.DenseLinear, dict(A=A, **forcing), None),
        ('Cash_Karp', Cash_Karp, hp.DenseLinear, dict(A=A, **forcing), None),
        ('DIRK43', DIRK43, hp.DenseLinear, dict(A=A, **forcing), None),
        ('ARK54', ARK54, hp.DenseIMEX, dict(A=A, B=B, **forcing), None),
        ('IMEXEulerStifflyAccurate', IMEXEulerStifflyAccurate, hp.DenseIMEX, dict(A=A, B=B, **forcing), None),
        ('paradiag', None, None, None, None),
        ('verlet', 'particles', None, None, None),
        ('boris_2nd_order', 'particles', None, None, None),
        ('FullyImplicitDAE', 'dae', None, None, None),
        ('SemiImplicitDAE', 'dae', None, None, None),
    ]
    name, sw, pc, pp, swp = table[which]
    tag = f"run/{name}/{procs}/{nlev}/{nsteps}/{case['hook']}"
    r.key = tag
    dt = 0.05
    logged_at = []

    class DigestAtLogTime(Hooks):
        """runs after the logging hook: records the digest of the value that was just logged"""

        def _rec(self, step, level_number):
            L = step.levels[level_number]
            if L.uend is not None:
                logged_at.append((round(L.time + L.dt, 12), step.status.iter, id(L.uend), dgo(L.uend)))

        def post_step(self, step, level_number):
            super().post_step(step, level_number)
            if case['hook'] == 'step':
                self._rec(step, level_number)

        def post_iteration(self, step, level_number):
            super().post_iteration(step, level_number)
            if case['hook'] == 'iter':
                self._rec(step, level_number)

    loghook = LogSolution if case['hook'] == 'step' else LogSolutionAfterIteration

    def dgo(o):
        # particle data own several arrays (positions, velocities, charges, masses)
        return tuple(digest(b) for b in allbufs(o)) if type(o).__name__ in ('particles', 'fields', 'acceleration') else digest(o)

    if sw == 'dae':
        procs = 1  # the controller's forward transfer evaluates f(u, t); DAE problems need f(u, du, t): single step per block only
        from pySDC.projects.DAE.problems.discontinuousTestDAE import DiscontinuousTestDAE
        from pySDC.projects.DAE.sweepers.fullyImplicitDAE import FullyImplicitDAE
        from pySDC.projects.DAE.sweepers.semiImplicitDAE import SemiImplicitDAE

        desc = dict(problem_class=DiscontinuousTestDAE, problem_params=dict(newton_tol=1e-8), sweeper_class=FullyImplicitDAE if name == 'FullyImplicitDAE' else SemiImplicitDAE,
                    sweeper_params=dict(quad_type='RADAU-RIGHT', num_nodes=3, QI='IE'), level_params=dict(dt=dt, restol=-1), step_params=dict(maxiter=3))
        ctrl = controller_nonMPI(procs, dict(logger_level=50, dump_setup=False, hook_class=[loghook, DigestAtLogTime]), desc)
    elif sw == 'particles':
        procs, nlev = 1, 1
        if name == 'verlet':
            from pySDC.implementations.problem_classes.OuterSolarSystem import outer_solar_system
            from pySDC.implementations.sweeper_classes.verlet import verlet

            desc = dict(problem_class=outer_solar_system, problem_params=dict(sun_only=False), sweeper_class=verlet, sweeper_params=dict(num_nodes=3, quad_type='LOBATTO', QI='IE', QE='PIC'),
                        level_params=dict(dt=10.0, restol=-1), step_params=dict(maxiter=3))
            dt = 10.0
        else:
            from pySDC.implementations.problem_classes.PenningTrap_3D import penningtrap
            from pySDC.implementations.sweeper_classes.boris_2nd_order import boris_2nd_order

            desc = dict(problem_class=penningtrap, problem_params=dict(omega_B=25.0, omega_E=4.9, u0=np.array([[10, 0, 0], [100, 0, 100], [1], [1]], dtype=object), nparts=2, sig=0.1), sweeper_class=boris_2nd_order,
                        sweeper_params=dict(num_nodes=3, quad_type='LOBATTO'), level_params=dict(dt=0.01, restol=-1), step_params=dict(maxiter=3))
            dt = 0.01
        ctrl = controller_nonMPI(1, dict(logger_level=50, dump_setup=False, hook_class=[loghook, DigestAtLogTime]), desc)
    elif name == 'paradiag':
        from pySDC.implementations.controller_classes.controller_ParaDiag_nonMPI import controller_ParaDiag_nonMPI
        from pySDC.implementations.problem_classes.TestEquation_0D import testequation0d
        from pySDC.implementations.sweeper_classes.ParaDiagSweepers import QDiagonalization

        desc = dict(problem_class=testequation0d, problem_params=dict(lambdas=np.array([-1.0, -2.0 + 1j]), u0=1.0), sweeper_class=QDiagonalization,
                    sweeper_params=dict(num_nodes=2, quad_type='RADAU-RIGHT'), level_params=dict(dt=dt, restol=1e-9), step_params=dict(maxiter=20))
        ctrl = controller_ParaDiag_nonMPI(num_procs=procs, controller_params=dict(logger_level=50, dump_setup=False, hook_class=[loghook, DigestAtLogTime], alpha=1e-4, mssdc_jac=False), description=desc)
        nsteps = procs * max(1, nsteps // procs)
    else:
        rk = swp is None
        if rk:
            nlev, procs = 1, 1
        sp = dict(swp or {})
        if not rk:
            sp.update(num_nodes=[3, 2][:nlev] if nlev > 1 else 3, quad_type='RADAU-RIGHT')
        desc = dict(problem_class=pc, problem_params=pp, sweeper_class=sw, sweeper_params=sp, level_params=dict(dt=dt, restol=-1 if rk else 1e-10), step_params=dict(maxiter=1 if rk else 4))
        if nlev > 1:
            desc.update(space_transfer_class=nocoarse, space_transfer_params={})
        ctrl = controller_nonMPI(procs, dict(logger_level=50, dump_setup=False, hook_class=[loghook, DigestAtLogTime]), desc)
    P = ctrl.MS[0].levels[0].prob
    t_start = 1.0 if sw == 'dae' else 0.0
    if sw == 'dae':
        u0 = P.u_exact(t_start)
    elif sw == 'particles':
        u0 = P.u_exact(0.0) if name == 'verlet' else P.u_init()
    else:
        u0 = P.u_init
        u0[...] = rng.standard_normal(np.asarray(u0).shape)
    d_u0 = dgo(u0)
    uend1, stats1 = ctrl.run(u0, t_start, t_start + nsteps * dt - 1e-9)
    r.check(dgo(u0) == d_u0, 'caller-u0-unchanged', f'{tag}: run() modified the initial value object passed by the caller')
    r.check(not any(np.shares_memory(x, y) for x in allbufs(uend1) for y in allbufs(u0)), 'returned-not-callers-object', f'{tag}: returned value shares memory with the caller\'s u0')
    entries = [(k, v) for k, v in stats1.items() if k.type == 'u']
    at_log = {}
    for (t, it, oid, dgst) in logged_at:
        at_log[(t, it)] = dgst
    tracked = 0
    for k, v in entries:
        key = (round(k.time, 12), k.iter)
        if key in at_log:
            r.check(dgo(v) == at_log[key], 'logged-value-frozen', f'{tag}: the solution logged at t={k.time} (iter {k.iter}) changed after it was logged')
            tracked += 1
    r.check(tracked >= 1, 'logged-values-tracked', f'{tag}: no logged value could be matched with its log-time digest ({len(entries)} entries, {len(logged_at)} log events)')
    d_end1 = dgo(uend1)
    d_entries = [(k, dgo(v)) for k, v in entries]
    # second run on the same controller, different data
    logged_at.clear()
    if sw == 'dae':
        u0b = P.u_exact(t_start + 0.1)
    elif sw == 'particles':
        u0b = P.dtype_u(u0)
        for b_ in bufs(u0b):
            b_ *= 1.01
    else:
        u0b = P.u_init
        u0b[...] = rng.standard_normal(np.asarray(u0b).shape)
    uend2, stats2 = ctrl.run(u0b, t_start, t_start + nsteps * dt - 1e-9)
    r.check(dgo(uend1) == d_end1, 'returned-value-survives-next-run', f'{tag}: the value returned by the first run changed during the second run')
    for (k, dgst), (k2, v) in zip(d_entries, entries):
        r.check(dgo(v) == dgst, 'logged-value-survives-next-run', f'{tag}: a solution logged by the first run (t={k.time}) changed during the second run')
    r.check(dgo(u0) == d_u0, 'caller-u0-unchanged', f'{tag}: the first initial value changed during the second run')
    r.nontrivial = tracked >= 1
    r.observe('sweeper_controller', f'{name}/{case["hook"]}')
    r.count('logged_values_tracked', tracked)
    r.sample = dict(case={k: v for k, v in case.items() if not k.startswith('_')}, tracked=tracked)


def run_case(case):
    r = Result(case)
    if case['kind'] == 'ops':
        if case['type'] in MESH_TYPES:
            run_ops_mesh(case, r)
        else:
            run_ops_particles(case, r)
    else:
        run_run(case, r)
    r.count('kind:' + case['kind'])
    return r


def finalize(agg):
    out = []
    c = agg['counters']
    for k in ('oracle:operands-and-bystanders-unchanged', 'oracle:augmented-assignment-keeps-alias', 'oracle:copy-independent', 'oracle:component-writable', 'oracle:abs-is-max-norm',
              'oracle:logged-value-frozen', 'oracle:caller-u0-unchanged', 'oracle:numpy-function-type', 'oracle:logged-value-survives-next-run'):
        if c.get(k, 0) == 0:
            out.append(f'monitor {k} never evaluated')
    for k, why in (('noncontiguous_component_views', 'no component of a non-contiguous view was exercised'), ('particle_copies_checked', 'no particle copy was checked over all its arrays'), ('layout_view_copies', 'no copy of a view with another memory layout was checked')):
        if c.get(k, 0) == 0:
            out.append(why)
    return out
