"""C08 — MPI-parallel variants equal their serial counterparts under every schedule.

The REAL controller_MPI, *_MPI sweepers, base_transfer_MPI and the MPI flavours of the convergence controllers are executed,
one thread per rank, against a simulated mpi4py (vf/simmpi) whose seeded scheduler chooses the interleaving at every MPI call,
the eager/rendezvous mode of every non-blocking send and the visibility delay of completions.  Monitors on the message log:
deadlock, exactly-once matching, collective order, send-buffer stability; equivalence oracle against the serial emulation.
"""

import os
import sys

_SIM = os.path.join(os.path.dirname(os.path.dirname(os.path.abspath(__file__))), 'simmpi')
if _SIM not in sys.path:
    sys.path.insert(0, _SIM)

import hashlib  # noqa: E402

import numpy as np  # noqa: E402

from vf.core import Result  # noqa: E402

PROPERTY = 'C08'
LEVEL = 'exploration'
TECHNIQUE = 'schedule exploration of the real MPI code paths on a simulated deterministic mpi4py (seeded / policy-driven interleavings, eager vs rendezvous, delayed completion) + message-log monitors + serial-equivalence oracle'
RULE = (
    'one case = one configuration (kind time: 1-5 time ranks, 1-3 levels, predictor, Jacobi/Gauss-Seidel, fixed step or restarts/adaptivity; kind node: 2-4 node ranks with the node-parallel sweepers '
    'incl. two levels with base_transfer_MPI; kind timexnode: time ranks x node ranks via Split) run under N seeded schedules over 6 scheduler policies; non-trivial = >= 2 ranks, >= 1 message matched and the serial oracle compared; '
    'distinct by configuration; distinct schedules are counted by the hash of the match order'
)
ASSUMPTIONS = [
    'the trusted base contains the simulated MPI (vf/simmpi/mpi4py/MPI.py): non-overtaking matching, Issend completes at match, Isend eager or rendezvous by scheduler choice, collectives are rendezvous points, Test() reports completion after a bounded delay',
    'rank threads share Python class-level state (e.g. mesh.comm), which real MPI processes would not; space communicators are None throughout',
    'values are compared to 1e-12*scale (reductions are summed in a different order), iteration counts / restarts exactly, step sizes to 1e-14 relative, step times to (4 + number of blocks so far) ulp (sums of step sizes accumulated in a different order); the interrupt-based iteration estimator is excluded',
]
EXHAUSTIVE = {'quick': False, 'thorough': False}
POLICIES = ['random', 'random', 'roundrobin', 'pct', 'latest', 'earliest', 'starve:0', 'starve:1', 'starve:2']


def cases(tier, seed):
    rng = np.random.default_rng(seed + 808)
    cs = []
    nsched = 12 if tier == 'quick' else 50
    ncfg = 26 if tier == 'quick' else 640
    for i in range(ncfg):
        nlev = int(rng.choice([1, 1, 2, 2, 3]))
        procs = int(rng.integers(1, 6))
        mode = ['fixed', 'fixed', 'restart', 'adaptive'][i % 4]
        if mode != 'fixed':
            nlev = 1 if mode == 'adaptive' else nlev
        cs.append(dict(kind='time', procs=procs, nlev=nlev, predict=[None, 'fine_only', 'pfasst_burnin'][int(rng.integers(0, 3))] if nlev > 1 else None, jac=bool(rng.random() < 0.5) if mode != 'adaptive' else False,
                       mode=mode, nsteps=int(rng.integers(1, 3 * procs + 1)), maxiter=int(rng.integers(1, 5)), restol=float(rng.choice([-1.0, 1e-8, 1e-3, 0.05, 0.2, 1.0])), prob=['heat', 'dahlquist'][i % 2] if nlev == 1 else 'heat',
                       a2d=bool(rng.random() < 0.2), rffs=bool(rng.random() < 0.3), mr=int(rng.integers(1, 4)), nsched=nsched, seed=int(rng.integers(0, 2**31)), _cost=procs * nlev * nsched))
    # intervals that end exactly on a step boundary, step sizes without a finite binary expansion, last block one step short
    for i in range(10 if tier == 'quick' else 200):
        procs = int(rng.integers(2, 5))
        dt_ = float(rng.choice([0.1, 0.3, 0.05, 0.7, 0.025]))
        nb = int(rng.integers(1, 5))
        nsteps = nb * procs + (procs - 1 if i % 2 == 0 else int(rng.integers(0, procs)))
        cs.append(dict(kind='time', procs=procs, nlev=int(rng.choice([1, 1, 2])), predict=None, jac=bool(rng.random() < 0.5), mode='fixed', nsteps=max(1, nsteps), maxiter=int(rng.integers(1, 4)), restol=-1.0,
                       prob=['heat', 'dahlquist'][i % 2], a2d=False, rffs=False, mr=1, dt=dt_, exact_end=True, nsched=max(3, nsched // 3), seed=int(rng.integers(0, 2**31)), _cost=procs * nsched))
        if cs[-1]['nlev'] > 1:
            cs[-1]['prob'] = 'heat'
    for i in range(10 if tier == 'quick' else 260):
        M = int(rng.integers(2, 5))
        cs.append(dict(kind='node', M=M, sweeper=['impl', 'imex'][i % 2], QI=['MIN-SR-S', 'IEpar', 'MIN-SR-NS', 'Qpar', 'MIN'][int(rng.integers(0, 5))], nlev=int(rng.choice([1, 1, 2])), qt=['RADAU-RIGHT', 'LOBATTO', 'GAUSS'][int(rng.integers(0, 3))],
                       rtype=['full_abs', 'last_abs', 'full_rel', 'last_rel'][int(rng.integers(0, 4))], guess=['spread', 'copy', 'zero'][int(rng.integers(0, 3))], nsteps=int(rng.integers(1, 4)), nsched=nsched, seed=int(rng.integers(0, 2**31)), _cost=M * nsched))
        if i % 3 == 0:
            cs[-1]['adapt'] = dict(e_tol=float(10 ** rng.uniform(-6, -3)), rel=bool((i // 3) % 2))
            cs[-1]['nsteps'] = int(rng.integers(3, 8))
            cs[-1]['nsched'] = max(3, nsched // 3)
    for i in range(6 if tier == 'quick' else 160):
        cs.append(dict(kind='timexnode', T=int(rng.integers(2, 4)), M=int(rng.integers(2, 4)), sweeper=['impl', 'imex'][i % 2], QI=['MIN-SR-S', 'IEpar'][i % 2], nsteps=int(rng.integers(2, 7)), nsched=max(4, nsched // 2), seed=int(rng.integers(0, 2**31)), _cost=8 * nsched))
    return cs


class StatelessRestart:
    """factory for a restart injector that needs no shared state (identical decisions in the serial and the MPI run):
    a step starting at one of the scripted times restarts (with halved step) as long as it still runs with the initial step size"""

    @staticmethod
    def make(times, dt0):
        from pySDC.core.convergence_controller import ConvergenceController

        class Inj(ConvergenceController):
            def setup(self, controller, params, description, **kwargs):
                return {'control_order': 90, **super().setup(controller, params, description, **kwargs)}

            def determine_restart(self, controller, S, **kwargs):
                if S.status.iter >= S.params.maxiter and abs(S.dt - dt0) < 1e-14 and any(abs(S.time - t) < 1e-10 for t in times):
                    S.status.restart = True
                    for L in S.levels:
                        L.status.dt_new = L.params.dt / 2

        return Inj


def time_description(case):
    from pySDC.implementations.problem_classes.HeatEquation_ND_FD import heatNd_unforced
    from pySDC.implementations.problem_classes.TestEquation_0D import testequation0d
    from pySDC.implementations.sweeper_classes.generic_implicit import generic_implicit
    from pySDC.implementations.transfer_classes.TransferMesh import mesh_to_mesh

    nlev = case['nlev']
    dt = case.get('dt', 0.05)
    if case['prob'] == 'heat':
        pc, pp = heatNd_unforced, dict(nvars=[15, 7, 3][:nlev] if nlev > 1 else 15, nu=0.1, freq=2, bc='dirichlet-zero')
    else:
        pc, pp = testequation0d, dict(lambdas=np.array([-1.0, -5.0 + 1j]), u0=1.0)
    d = dict(problem_class=pc, problem_params=pp, sweeper_class=generic_implicit, sweeper_params=dict(num_nodes=[3, 2, 2][:nlev] if nlev > 1 else 3, quad_type='RADAU-RIGHT', QI='LU'),
             level_params=dict(dt=dt, restol=case['restol']), step_params=dict(maxiter=case['maxiter']))
    if nlev > 1:
        d.update(space_transfer_class=mesh_to_mesh, space_transfer_params=dict(iorder=2, rorder=2))
    return d, dt


def add_control(case, d, dt, useMPI):
    from pySDC.implementations.convergence_controller_classes.adaptivity import Adaptivity
    from pySDC.implementations.convergence_controller_classes.basic_restarting import BasicRestarting

    if case['mode'] == 'restart':
        d['level_params']['restol'] = -1.0
        times = [k * dt for k in (1, 2, 4)]
        d['convergence_controllers'] = {StatelessRestart.make(times, dt): {}, BasicRestarting.get_implementation(useMPI=useMPI): dict(max_restarts=case['mr'] + 2, restart_from_first_step=case['rffs'])}
    elif case['mode'] == 'adaptive':
        d['level_params']['restol'] = -1.0
        d['step_params']['maxiter'] = max(2, case['maxiter'])
        # tolerance tied to the order of the step so that the number of steps stays in the hundreds
        d['convergence_controllers'] = {Adaptivity: dict(e_tol={2: 1e-4, 3: 1e-5}.get(d['step_params']['maxiter'], 1e-6))}


def last_attempt(stats):
    """(start time, restart flag) of the step attempt this rank logged last (insertion order)"""
    last = None
    for k, v in stats.items():
        if k.type == 'restart':
            last = (float(k.time), int(v))
    return last


def summarize_stats(stats):
    from pySDC.helpers.stats_helper import get_sorted

    out = {'_last': last_attempt(stats)}
    for typ in ('niter', 'restart', 'dt', 'residual_post_step'):
        out[typ] = [(float(t), v) for t, v in get_sorted(stats, type=typ, sortby='time')]
    return out


def schedule_hash(w):
    return hashlib.md5(repr([e[:4] for e in w.log if e[0] == 'match']).encode()).hexdigest()[:12]


def monitors(r, tag, w, err):
    from mpi4py import MPI

    dl = [e for e in err if isinstance(e, MPI.Deadlock)]
    r.check(not dl and not getattr(w, 'hung', False), 'no-deadlock', f'{tag}: {dl[0] if dl else "rank threads did not finish"}')
    other = [e for e in err if e is not None and not isinstance(e, MPI.Deadlock)]
    r.check(not other, 'no-exception', f'{tag}: a rank raised {type(other[0]).__name__ if other else ""}: {str(other[0])[:300] if other else ""}')
    for v in w.violations[:4]:
        clause = 'send-buffer-stable' if 'modified' in v else ('collective-order' if 'collective' in v else 'every-message-matched-once')
        r.check(False, clause, f'{tag}: {v}')
    if not w.violations:
        r.check(True, 'every-message-matched-once', '')
        r.check(True, 'send-buffer-stable', '')
    return not dl and not other and not getattr(w, 'hung', False)


def run_time(case, r):
    from mpi4py import MPI

    from pySDC.implementations.controller_classes.controller_MPI import controller_MPI
    from pySDC.implementations.controller_classes.controller_nonMPI import controller_nonMPI
    from pySDC.implementations.hooks.log_step_size import LogStepSize

    procs, nlev = case['procs'], case['nlev']
    r.key = f"time/{procs}/{nlev}/{case['predict']}/{case['jac']}/{case['mode']}/{case['prob']}/{case['maxiter']}/{case['restol']}/{case['nsteps']}/{case['a2d']}/{case['rffs']}/{case.get('dt', 0.05)}/{case.get('exact_end', False)}"
    tag = r.key

    def cparams():
        cp = dict(logger_level=50, dump_setup=False, mssdc_jac=case['jac'], all_to_done=case['a2d'], hook_class=[LogStepSize])
        if nlev > 1:
            cp['predict_type'] = case['predict']
        return cp

    d, dt = time_description(case)
    add_control(case, d, dt, useMPI=False)
    Tend = (case['nsteps'] - 0.5) * dt
    if case.get('exact_end'):
        # the interval ends exactly on a step boundary: whether the accumulated start time of the next step rounds below or above
        # Tend decides which ranks take part in the last block -- the parallel run must take the serial run's decision
        Tend = case['nsteps'] * dt
    from vf.checks.C09 import split_blocks
    from vf.mon.tracehook import find_hook, make_trace_hook

    H = make_trace_hook()
    cps = cparams()
    cps['hook_class'] = cps['hook_class'] + [H]
    ser = controller_nonMPI(procs, cps, d)
    P = ser.MS[0].levels[0].prob
    u0 = P.u_exact(0.0)
    try:
        us, ss = ser.run(u0, 0.0, Tend)
    except Exception as e:  # noqa
        r.count('serial_reference_raised')
        r.check(True, 'noop', '')
        return
    ref = summarize_stats(ss)
    us = np.asarray(us).copy()
    # the last block of the serial run: start times of its (accepted) steps
    blocks = split_blocks([e for e in find_hook(ser, H).events if e['cb'] in ('pre_step', 'post_step')])
    last_block_times = [e['time'] for e in blocks[-1]['post'] if not e.get('restart')] if blocks else []
    seen = set()
    for s in range(case['nsched']):
        policy = POLICIES[s % len(POLICIES)]
        sseed = case['seed'] + s

        def fn(rank):
            dd, _ = time_description(case)
            add_control(case, dd, dt, useMPI=True)
            c = controller_MPI(cparams(), dd, MPI.COMM_WORLD)
            Pm = c.S.levels[0].prob
            u, st = c.run(Pm.u_exact(0.0), 0.0, Tend)
            return np.asarray(u).copy(), summarize_stats(st), c.S.status.slot

        res, err, w = MPI.launch(procs, fn, seed=sseed, policy=policy)
        stag = f'{tag} schedule(seed={sseed}, policy={policy})'
        ok = monitors(r, stag, w, err)
        r.count('schedules')
        seen.add(schedule_hash(w))
        r.count('messages_matched', w.counts['matches'])
        r.count('collectives', w.counts['collectives'])
        r.count('eager_sends', w.counts['eager'])
        r.count('rendezvous_sends', w.counts['rendezvous'])
        r.count('late_tests', w.counts['late_tests'])
        if not ok:
            continue
        merged = {}
        for rr in res:
            for typ, lst in rr[1].items():
                if typ.startswith("_"):
                    continue
                merged.setdefault(typ, []).extend(lst)
        def canon(lst):
            # records of a restarted attempt and of its retry share a time: order among equal times is not meaningful
            return sorted(lst, key=lambda x: (round(x[0], 11), -1.0 if x[1] is None else float(x[1])))

        for typ in merged:
            merged[typ] = canon(merged[typ])
        refc = {k: canon(v) for k, v in ref.items() if not k.startswith('_')}
        # known mechanism: both controllers decide "is there another step" by time < Tend - 10*eps (absolute) but accumulate the
        # start times differently (serial: t += dt step by step; parallel: t_block + sum(dt[:slot])); when Tend lies on a step
        # boundary at |t| > ~8 the two sums differ by more than the guard and one controller takes one whole step more
        a_, b_ = refc['niter'], merged.get('niter', [])
        if case.get('exact_end') and abs(len(a_) - len(b_)) == 1:
            longer = a_ if len(a_) > len(b_) else b_
            if abs(longer[-1][0] - Tend) <= 16 * np.spacing(abs(Tend)) and all(abs(x[0] - y[0]) <= (4 + i_ // max(1, procs)) * np.spacing(max(abs(x[0]), 1.0)) for i_, (x, y) in enumerate(zip(a_, b_))):
                r.check(False, 'same-steps', f"{stag}: {len(b_)} steps over all ranks, serial run has {len(a_)}: the step starting at t={longer[-1][0]!r} (Tend={Tend!r}) is taken by only one of the two controllers", mech='end-of-run-decision-differs-by-rounding-of-accumulated-start-time')
                r.count('end_of_run_rounding_ties')
                continue
        for typ in ('niter', 'restart', 'dt'):
            a, b = refc[typ], merged.get(typ, [])
            same_len = len(a) == len(b)
            r.check(same_len, 'same-steps', f'{stag}: {len(b)} {typ!r} records over all ranks, serial run has {len(a)}')
            if same_len:
                # step start times are sums of step sizes accumulated in a different order on the ranks: the admissible
                # difference grows with the number of blocks summed so far
                bad = [i_ for i_, (x, y) in enumerate(zip(a, b)) if not (abs(x[0] - y[0]) <= (4 + i_ // max(1, procs)) * np.spacing(max(abs(x[0]), 1.0)) and (x[1] == y[1] if typ != 'dt' else abs(x[1] - y[1]) <= 1e-14 * abs(x[1])))]
                lo = max(0, bad[0] - 2) if bad else 0
                r.check(not bad, f'same-{typ}', f'{stag}: {typ} over time differs from the serial run at record {bad[:1]} of {len(a)}: {b[lo:lo + 5]} vs serial {a[lo:lo + 5]}')
        a, b = refc['residual_post_step'], merged.get('residual_post_step', [])
        if len(a) == len(b):
            okr = all((x[1] is None and y[1] is None) or abs(x[1] - y[1]) <= 1e-11 * max(1.0, abs(x[1])) for x, y in zip(a, b))
            r.check(okr, 'same-residual', f'{stag}: residuals differ from the serial run: {b[:4]} vs {a[:4]}')
        # solution on the ranks that took part in the last block
        for rank, rr in enumerate(res):
            la = rr[1].get('_last')
            if la is not None and la[1] == 0 and any(abs(la[0] - t) <= 1e-12 for t in last_block_times):
                e = float(np.max(np.abs(rr[0] - us)))
                r.check(e <= 1e-12 * max(1.0, float(np.max(np.abs(us)))), 'same-solution', f'{stag}: rank {rank} (last step at t={la[0]}) returns a value {e:.3e} away from the serial result')
                r.count('solutions_compared')
        r.nontrivial = r.nontrivial or (procs >= 2 and w.counts['matches'] > 0) or procs == 1
    r.counters['distinct_schedules'] = len(seen)
    for h in seen:
        r.observe('schedule', h)
    r.observe('mode', case['mode'])
    r.observe('ranks_levels', f'{procs}x{nlev}')
    r.sample = dict(case={k: v for k, v in case.items() if not k.startswith('_')}, distinct_schedules=len(seen), serial_niter=ref['niter'][:6])


def _last_block_start(ref, procs):
    """start time of the first step of the last block of the serial run (steps are grouped in blocks of <= procs; restarts make it fuzzy: use the last accepted step)"""
    times = [t for t, _ in ref['niter']]
    return times[-1]


def node_description(case, mpi, comm=None):
    from pySDC.implementations.problem_classes.HeatEquation_ND_FD import heatNd_forced, heatNd_unforced
    from pySDC.implementations.transfer_classes.TransferMesh import mesh_to_mesh

    M, nlev = case['M'], case.get('nlev', 1)
    if case['sweeper'] == 'impl':
        from pySDC.implementations.sweeper_classes.generic_implicit import generic_implicit
        from pySDC.implementations.sweeper_classes.generic_implicit_MPI import generic_implicit_MPI

        sw, pc = (generic_implicit_MPI if mpi else generic_implicit), heatNd_unforced
    else:
        from pySDC.implementations.sweeper_classes.imex_1st_order import imex_1st_order
        from pySDC.implementations.sweeper_classes.imex_1st_order_MPI import imex_1st_order_MPI

        sw, pc = (imex_1st_order_MPI if mpi else imex_1st_order), heatNd_forced
    swp = dict(num_nodes=M, quad_type=case.get('qt', 'RADAU-RIGHT'), QI=case['QI'], initial_guess=case.get('guess', 'spread'))
    if case['sweeper'] == 'imex':
        swp['QE'] = 'PIC'
    if mpi:
        swp['comm'] = comm
    d = dict(problem_class=pc, problem_params=dict(nvars=[15, 7][:nlev] if nlev > 1 else 15, nu=0.1, freq=2, bc='dirichlet-zero'), sweeper_class=sw, sweeper_params=swp,
             level_params=dict(dt=0.05, restol=1e-9, residual_type=case.get('rtype', 'full_abs')), step_params=dict(maxiter=6))
    if nlev > 1:
        d.update(space_transfer_class=mesh_to_mesh, space_transfer_params=dict(iorder=2, rorder=2))
        if mpi:
            from pySDC.implementations.transfer_classes.BaseTransferMPI import base_transfer_MPI

            d['base_transfer_class'] = base_transfer_MPI
    if case.get('adapt'):
        # error-based step-size control on top of the node-parallel sweeper: the estimate is assembled across the node ranks
        from pySDC.implementations.convergence_controller_classes.adaptivity import Adaptivity

        d['level_params'] = dict(dt=0.05, restol=-1, residual_type=case.get('rtype', 'full_abs'))
        d['step_params'] = dict(maxiter=3)
        d['convergence_controllers'] = {Adaptivity: dict(e_tol=case['adapt']['e_tol'], rel_error=case['adapt']['rel'])}
    return d


def run_node(case, r):
    from mpi4py import MPI

    from pySDC.implementations.controller_classes.controller_nonMPI import controller_nonMPI

    M = case['M']
    r.key = f"node/{M}/{case['sweeper']}/{case['QI']}/{case['nlev']}/{case['qt']}/{case['rtype']}/{case['guess']}/{case['nsteps']}"
    tag = r.key
    if case.get('adapt'):
        case = dict(case, nlev=1, qt='RADAU-RIGHT', guess='spread')
        r.key += f"/adapt{case['adapt']['rel']}"
        tag = r.key
    if case['qt'] != 'RADAU-RIGHT' and (case['nlev'] > 1):
        case = dict(case, nlev=1)
    if case['qt'] == 'GAUSS' and case['sweeper'] == 'imex':
        case = dict(case, qt='RADAU-RIGHT')
    cp = dict(logger_level=50, dump_setup=False, mssdc_jac=False)
    Tend = (case['nsteps'] - 0.5) * 0.05
    try:
        ser = controller_nonMPI(1, dict(cp), node_description(case, False))
        P = ser.MS[0].levels[0].prob
        us, ss = ser.run(P.u_exact(0.0), 0.0, Tend)
    except Exception as e:  # noqa
        r.count('serial_reference_raised')
        r.observe('serial_rejected', f"{case['QI']}/{case['qt']}:{type(e).__name__}")
        r.check(True, 'noop', '')
        return
    ref = summarize_stats(ss)
    us = np.asarray(us).copy()
    seen = set()
    for s in range(case['nsched']):
        policy = POLICIES[s % len(POLICIES)]
        sseed = case['seed'] + s

        def fn(rank):
            c = controller_nonMPI(1, dict(cp), node_description(case, True, MPI.COMM_WORLD))
            Pm = c.MS[0].levels[0].prob
            u, st = c.run(Pm.u_exact(0.0), 0.0, Tend)
            return np.asarray(u).copy(), summarize_stats(st)

        res, err, w = MPI.launch(M, fn, seed=sseed, policy=policy)
        stag = f'{tag} schedule(seed={sseed}, policy={policy})'
        ok = monitors(r, stag, w, err)
        r.count('schedules')
        seen.add(schedule_hash(w) + hashlib.md5(repr([e[:3] for e in w.log if e[0] == 'coll'][:400]).encode()).hexdigest()[:6])
        r.count('collectives', w.counts['collectives'])
        if not ok:
            continue
        for rank, rr in enumerate(res):
            e = float(np.max(np.abs(rr[0] - us)))
            r.check(e <= 1e-12 * max(1.0, float(np.max(np.abs(us)))), 'same-solution', f'{stag}: node rank {rank} returns a value {e:.3e} away from the serial sweeper result')
            r.check([v for _, v in rr[1]['niter']] == [v for _, v in ref['niter']], 'same-niter', f'{stag}: node rank {rank} iteration counts {[v for _, v in rr[1]["niter"]]} vs serial {[v for _, v in ref["niter"]]}')
            if case.get('adapt'):
                a_, b_ = ref.get('dt', []), rr[1].get('dt', [])
                r.check(len(a_) == len(b_) and all(abs(x[1] - y[1]) <= 1e-12 * abs(x[1]) for x, y in zip(a_, b_)), 'same-dt', f'{stag}: node rank {rank} step sizes {b_[:5]} vs serial {a_[:5]}')
                r.check([v for _, v in rr[1].get('restart', [])] == [v for _, v in ref.get('restart', [])], 'same-restart', f'{stag}: node rank {rank} restarts differ from the serial run')
                r.count('node_adaptive_runs_compared')
            okr = len(rr[1]['residual_post_step']) == len(ref['residual_post_step']) and all(abs(x[1] - y[1]) <= 1e-11 * max(1.0, abs(x[1])) + 1e-15 for x, y in zip(ref['residual_post_step'], rr[1]['residual_post_step']))
            r.check(okr, 'same-residual', f'{stag}: node rank {rank} residuals {rr[1]["residual_post_step"][:3]} vs serial {ref["residual_post_step"][:3]}')
            r.count('solutions_compared')
        r.nontrivial = True
    r.counters['distinct_schedules'] = len(seen)
    r.observe('node_sweeper', f"{case['sweeper']}/{case['nlev']}")
    r.sample = dict(case={k: v for k, v in case.items() if not k.startswith('_')}, distinct_schedules=len(seen))


def run_timexnode(case, r):
    from mpi4py import MPI

    from pySDC.implementations.controller_classes.controller_MPI import controller_MPI
    from pySDC.implementations.controller_classes.controller_nonMPI import controller_nonMPI

    T, M = case['T'], case['M']
    r.key = f"timexnode/{T}x{M}/{case['sweeper']}/{case['QI']}/{case['nsteps']}"
    tag = r.key
    cp = dict(logger_level=50, dump_setup=False, mssdc_jac=False)
    base = dict(case, nlev=1, qt='RADAU-RIGHT', rtype='full_abs', guess='spread')
    Tend = (case['nsteps'] - 0.5) * 0.05
    ser = controller_nonMPI(T, dict(cp), node_description(base, False))
    P = ser.MS[0].levels[0].prob
    us, ss = ser.run(P.u_exact(0.0), 0.0, Tend)
    ref = summarize_stats(ss)
    us = np.asarray(us).copy()
    seen = set()
    for s in range(case['nsched']):
        policy = POLICIES[s % len(POLICIES)]
        sseed = case['seed'] + s

        def fn(rank):
            world = MPI.COMM_WORLD
            time_rank, node_rank = rank // M, rank % M
            node_comm = world.Split(time_rank, node_rank)
            time_comm = world.Split(node_rank, time_rank)
            c = controller_MPI(dict(cp), node_description(base, True, node_comm), time_comm)
            Pm = c.S.levels[0].prob
            u, st = c.run(Pm.u_exact(0.0), 0.0, Tend)
            return np.asarray(u).copy(), summarize_stats(st)

        res, err, w = MPI.launch(T * M, fn, seed=sseed, policy=policy)
        stag = f'{tag} schedule(seed={sseed}, policy={policy})'
        ok = monitors(r, stag, w, err)
        r.count('schedules')
        seen.add(schedule_hash(w))
        r.count('messages_matched', w.counts['matches'])
        r.count('collectives', w.counts['collectives'])
        if not ok:
            continue
        # every node rank of one time rank logs the same step: take node rank 0 of each time rank
        merged = {}
        for rank in range(0, T * M, M):
            for typ, lst in res[rank][1].items():
                if typ.startswith("_"):
                    continue
                merged.setdefault(typ, []).extend(lst)
        for typ in merged:
            merged[typ].sort(key=lambda x: x[0])
        a, b = ref['niter'], merged.get('niter', [])
        r.check(len(a) == len(b) and all(x[1] == y[1] and abs(x[0] - y[0]) <= 1e-12 for x, y in zip(a, b)), 'same-niter', f'{stag}: iteration counts {b[:6]} vs serial {a[:6]}')
        last_rank_t = [res[rank][1]['niter'][-1][0] if res[rank][1]['niter'] else -1 for rank in range(T * M)]
        tl = max(last_rank_t)
        for rank in range(T * M):
            if abs(last_rank_t[rank] - tl) <= 1e-12:
                e = float(np.max(np.abs(res[rank][0] - us)))
                r.check(e <= 1e-12 * max(1.0, float(np.max(np.abs(us)))), 'same-solution', f'{stag}: rank {rank} returns a value {e:.3e} away from the serial result')
                r.count('solutions_compared')
        r.nontrivial = True
    r.counters['distinct_schedules'] = len(seen)
    r.observe('timexnode', f'{T}x{M}')
    r.sample = dict(case={k: v for k, v in case.items() if not k.startswith('_')}, distinct_schedules=len(seen))


def run_case(case):
    r = Result(case)
    dict(time=run_time, node=run_node, timexnode=run_timexnode)[case['kind']](case, r)
    r.count('kind:' + case['kind'])
    return r


def finalize(agg):
    out = []
    c = agg['counters']
    for k in ('oracle:no-deadlock', 'oracle:every-message-matched-once', 'oracle:send-buffer-stable', 'oracle:same-niter', 'oracle:same-solution'):
        if c.get(k, 0) == 0:
            out.append(f'monitor {k} never evaluated')
    if c.get('messages_matched', 0) == 0:
        out.append('no point-to-point message was matched')
    if c.get('rendezvous_sends', 0) == 0:
        out.append('no rendezvous send was exercised')
    if c.get('solutions_compared', 0) == 0:
        out.append('no solution was compared with the serial run')
    return out


def coverage_extra(agg, tier):
    c = agg['counters']
    return dict(schedules_run=c.get('schedules', 0), distinct_schedules=len(agg['seen'].get('schedule', ())), messages_matched=c.get('messages_matched', 0), collectives=c.get('collectives', 0),
                eager_sends=c.get('eager_sends', 0), rendezvous_sends=c.get('rendezvous_sends', 0), delayed_completion_reports=c.get('late_tests', 0))
