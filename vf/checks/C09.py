"""C09 — restarts and step-size control keep their promises for every failure sequence.

Fault injection on the real controller:
  A. RestartInjector (order 90, before BasicRestarting) requests restarts at scripted (distinct-start-time ordinal, attempt)
     positions; all scripts with <= 3 requests over 4 ordinals x 3 attempts are enumerated.
  B. ErrorInjector (order -60, between the embedded estimator and Adaptivity) supplies scripted error estimates; probes at
     orders -49, 91.5, 92.5 observe proposal, slope-limited and limited step sizes stage by stage.
  C. real adaptive runs (embedded estimate, RK pairs) judged from the trace alone.
Oracles are trace invariants, not a re-implementation of the controllers.
"""

import itertools

import numpy as np

from vf.core import Result, digest

PROPERTY = 'C09'
LEVEL = 'fault_enumeration'
TECHNIQUE = 'scripted restart / error-estimate injection on the real controller + staged probes + offline trace invariants'
RULE = (
    'kind=script: one (procs 1-4, max_restarts, restart_from_first_step, crash flag, dt factor) configuration with one restart script (set of (start-time ordinal, attempt) '
    'positions, all subsets of size <=3 of 4x3 positions enumerated); kind=adapt: one adaptive configuration (procs, limiter settings, max_restarts, tolerance) with a seeded stream of '
    'injected error estimates around e_tol; kind=real: one real adaptive run; non-trivial = >=1 restart observed or >=1 step-size proposal checked; distinct by configuration+script'
)
ASSUMPTIONS = [
    'injectors write S.status.restart / L.status.dt_new / L.status.error_embedded_estimate only, at the call sites where shipped controllers write them',
    'ground truth of "requested" = what the injector wrote (script) or e_est >= e_tol observed by the probe right after Adaptivity',
    'Dahlquist workload with 2 Radau nodes, maxiter 2, restol -1 (the logic is problem independent); real runs: van der Pol, Lorenz, Dahlquist',
]
EXHAUSTIVE = {'quick': True, 'thorough': True}
POS = [(o, a) for o in range(4) for a in range(3)]


class ProgressBound(Exception):
    pass


def all_scripts():
    out = [()]
    for k in (1, 2, 3):
        out += list(itertools.combinations(POS, k))
    return out


def cases(tier, seed):
    rng = np.random.default_rng(seed + 909)
    cs = []
    scripts = all_scripts()
    cfgs = []
    for procs in (1, 2, 3, 4):
        for mr in (0, 1, 2, 3):
            for rffs in (False, True):
                for fac in (0.5, None):
                    cfgs.append(dict(procs=procs, mr=mr, rffs=rffs, fac=fac, crash=True))
    if tier == 'quick':
        idx = [0, 5, 10, 19, 22, 29, 36, 41, 47, 52, 58, 63]
        cfgs_q = [cfgs[i] for i in idx]
        for cfg in cfgs_q:
            for i in range(0, len(scripts), 100):
                cs.append(dict(kind='script', cfg=cfg, scripts=[list(map(list, s)) for s in scripts[i:i + 100]], _cost=100 * cfg['procs']))
    else:
        for cfg in cfgs:
            for crash in (True, False):
                c2 = dict(cfg, crash=crash)
                for i in range(0, len(scripts), 100):
                    cs.append(dict(kind='script', cfg=c2, scripts=[list(map(list, s)) for s in scripts[i:i + 100]], _cost=100 * cfg['procs']))
    # random longer scripts, crash False included
    for i in range(30 if tier == 'quick' else 600):
        cfg = dict(procs=int(rng.integers(1, 5)), mr=int(rng.integers(0, 5)), rffs=bool(rng.random() < 0.5), fac=[0.5, None, 0.5, 1.0][int(rng.integers(0, 4))], crash=bool(rng.random() < 0.6))
        ss = []
        for _ in range(20):
            k = int(rng.integers(1, 6))
            ss.append([[int(rng.integers(0, 8)), int(rng.integers(0, 5))] for _ in range(k)])
        cs.append(dict(kind='script', cfg=cfg, scripts=ss, _cost=60 * cfg['procs']))
    # adaptivity with injected estimates
    for i in range(150 if tier == 'quick' else 3000):
        lim = {}
        if rng.random() < 0.6:
            lim['dt_min'] = float(10 ** rng.uniform(-4, -1.5))
        if rng.random() < 0.6:
            lim['dt_max'] = float(10 ** rng.uniform(-1, 0.3))
        if rng.random() < 0.6:
            lim['dt_slope_min'] = float(rng.choice([0.1, 0.5, 0.9, 1.0]))
        if rng.random() < 0.6:
            lim['dt_slope_max'] = float(rng.choice([1.5, 2.0, 10.0]))
        if rng.random() < 0.4:
            lim['dt_rel_min_slope'] = float(rng.choice([0.05, 0.2, 0.5]))
        cs.append(dict(kind='adapt', procs=int(rng.integers(1, 5)), mr=int(rng.integers(0, 5)), e_tol=float(10 ** rng.uniform(-8, -3)), beta=float(rng.choice([0.9, 0.8, 1.0])),
                       lim=lim, dt=float(10 ** rng.uniform(-2, -0.5)), Tend=float(rng.uniform(0.3, 2.0)), maxiter=int(rng.integers(1, 5)), spread=float(rng.uniform(0.5, 3.0)),
                       eseed=int(rng.integers(0, 2**31)), crash=bool(rng.random() < 0.7), _cost=30))
        # whole-block restarts: every step of the block is redone and the smallest proposal of the block is spread
        cs[-1]['rffs'] = bool(i % 3 == 1 and cs[-1]['procs'] >= 2)
    for i in range(24 if tier == 'quick' else 300):
        cs.append(dict(kind='variant', variant=['avoid', 'poly', 'poly_nomax', 'extrap', 'avoid', 'poly_nomax'][i % 6], which=(i // 6) % 3, e_tol=float(10 ** rng.uniform(-7, -3.5)), dt=float(10 ** rng.uniform(-2, -0.3)),
                       maxiter=int(rng.integers(2, 6)), mr=int(rng.choice([10, 30])), seed=int(rng.integers(0, 2**31)), _cost=80))
        cs.append(dict(kind='real', which=i % 6, e_tol=float(10 ** rng.uniform(-7, -3)), procs=int(rng.choice([1, 1, 2, 3])), dt=float(10 ** rng.uniform(-2.5, -1)), seed=int(rng.integers(0, 2**31)), _cost=60))
    return cs


# --------------------------------------------------------------------------------------------------------------- helpers
def _base_desc(dt, maxiter, cc):
    from pySDC.implementations.problem_classes.TestEquation_0D import testequation0d
    from pySDC.implementations.sweeper_classes.generic_implicit import generic_implicit

    return dict(problem_class=testequation0d, problem_params=dict(lambdas=np.array([-1.0, -0.5 + 0.5j]), u0=1.0), sweeper_class=generic_implicit,
                sweeper_params=dict(num_nodes=2, quad_type='RADAU-RIGHT', QI='IE'), level_params=dict(dt=dt, restol=-1), step_params=dict(maxiter=maxiter),
                convergence_controllers=cc)


def split_blocks(events):
    """group pre_step/post_step events into blocks: a new block starts at every pre_step of the lowest slot after a post_step"""
    blocks = []
    cur = None
    seen_post = True
    for e in events:
        if e['cb'] == 'pre_step':
            if seen_post:
                cur = dict(pre=[], post=[])
                blocks.append(cur)
                seen_post = False
            cur['pre'].append(e)
        elif e['cb'] == 'post_step':
            cur['post'].append(e)
            seen_post = True
    return blocks


def own_restarts_in_a_row(blocks, bi):
    """how often the first step of block bi has been restarted in a row, counted from the trace (not from the counter the
    code keeps): consecutive preceding blocks that were restarted from a step with the same start time"""
    t = sorted(blocks[bi]['pre'], key=lambda e: e['slot'])[0]['time']
    n = 0
    for bj in range(bi - 1, -1, -1):
        pre = {e['slot']: e for e in blocks[bj]['pre']}
        flagged = sorted(e['slot'] for e in blocks[bj]['post'] if e.get('restart'))
        # the step the block was restarted FROM (later steps are only carried along)
        if flagged and pre.get(flagged[0], {}).get('time') == t:
            n += 1
        else:
            break
    return n


def check_blocks(r, tag, blocks, Tend, mr, rffs, crash, requested, raised):
    """trace invariants P1-P4.  requested(block_index, slot) -> True/False/None (ground truth of what was asked for)"""
    prev = None
    attempts_in_a_row = {}
    for bi, b in enumerate(blocks):
        pre = sorted(b['pre'], key=lambda e: e['slot'])
        post = sorted(b['post'], key=lambda e: e['slot'])
        # P2 one dt per block
        dts = {e['dt'] for e in pre}
        r.check(len(dts) == 1, 'one-dt-per-block', f'{tag}: block {bi} has step sizes {sorted(dts)}')
        # slots are consecutive from 0 and times chain inside the block
        r.check([e['slot'] for e in pre] == list(range(len(pre))), 'block-slots', f'{tag}: block {bi} slots {[e["slot"] for e in pre]}')
        for a, c in zip(pre[:-1], pre[1:]):
            r.check(abs(c['time'] - (a['time'] + a['dt'])) <= 8 * np.spacing(max(abs(c['time']), 1.0)), 'block-times-chain', f'{tag}: block {bi} start times {[e["time"] for e in pre]} dt {a["dt"]}')
        if len(post) != len(pre):
            r.check(raised is not None and bi == len(blocks) - 1, 'block-complete', f'{tag}: block {bi} has {len(pre)} pre_step but {len(post)} post_step callbacks and no error was raised')
            continue
        flags = [bool(e.get('restart')) for e in post]
        # restart flags are a suffix of the block (propagation to all later steps) -- or all steps with restart_from_first_step
        if any(flags):
            k = flags.index(True)
            r.check(all(flags[k:]), 'restart-propagates-forward', f'{tag}: block {bi} restart flags {flags}')
            if rffs:
                r.check(all(flags), 'restart-from-first-step', f'{tag}: block {bi} restart flags {flags} with restart_from_first_step')
        # ground truth: no swallowed request
        first_budget_exhausted = (pre[0].get('restarts_in_a_row') or 0) >= mr
        # the counter the code keeps must be the number of consecutive restarts of that step seen in the trace
        own = own_restarts_in_a_row(blocks, bi)
        r.check((pre[0].get('restarts_in_a_row') or 0) == own, 'retry-counter-counts-restarts-in-a-row', f'{tag}: block {bi} starts at t={pre[0]["time"]!r} with restarts_in_a_row={pre[0].get("restarts_in_a_row")}, but the step starting there has been restarted {own} time(s) in a row')
        for e in post:
            req = requested(bi, e['slot'], e)
            if req and not e.get('restart'):
                # the step is accepted although a restart was asked for in this very attempt
                legit = (not crash) and first_budget_exhausted
                mech = None
                if not legit and e['slot'] > 0 and first_budget_exhausted and crash:
                    mech = 'restart-request-of-later-slot-swallowed-when-first-slot-budget-exhausted'
                r.check(legit, 'request-never-swallowed', f'{tag}: block {bi} slot {e["slot"]} (t={e["time"]!r}) asked for a restart in this attempt but was accepted; first slot restarts_in_a_row={pre[0].get("restarts_in_a_row")}, max_restarts={mr}, crash={crash}', mech=mech)
            r.count('request_checks')
        # P1 next block start
        if bi + 1 < len(blocks):
            nxt = sorted(blocks[bi + 1]['pre'], key=lambda e: e['slot'])
            if any(flags):
                k = flags.index(True)
                r.check(nxt[0]['time'] == pre[k]['time'], 'restart-resumes-at-first-restarted-step', f'{tag}: block {bi} first restarted slot {k} started at {pre[k]["time"]!r}, next block starts at {nxt[0]["time"]!r}')
                r.check(nxt[0]['dig'][0]['u'][0] == post[k]['dig'][0]['u'][0], 'restart-resumes-with-start-value', f'{tag}: next block after restart of slot {k} does not start from that step\'s start value')
                if nxt[0]['time'] == pre[k]['time']:
                    r.count('restarts_observed')
            else:
                exp_t = post[-1]['time'] + post[-1]['dt']
                r.check(abs(nxt[0]['time'] - exp_t) <= 8 * np.spacing(max(abs(exp_t), 1.0)), 'advance-after-accept', f'{tag}: block {bi} accepted, next block starts at {nxt[0]["time"]!r} instead of {exp_t!r}')
                r.check(nxt[0]['dig'][0]['u'][0] == post[-1]['dig'][0]['uend'], 'advance-with-end-value', f'{tag}: next block does not start from the last end value')
        # P3a attempts in a row at the same start time
        t0b = pre[0]['time']
        if prev is not None and prev == t0b:
            attempts_in_a_row[t0b] = attempts_in_a_row.get(t0b, 1) + 1
        else:
            attempts_in_a_row[t0b] = 1
        r.check(attempts_in_a_row[t0b] <= mr + 1, 'retry-budget', f'{tag}: start time {t0b!r} attempted {attempts_in_a_row[t0b]} times in a row, max_restarts={mr}')
        # P4 progress: either the first start time advanced or the retry counter of the first slot increased
        if bi > 0:
            pprev = sorted(blocks[bi - 1]['pre'], key=lambda e: e['slot'])[0]
            adv = pre[0]['time'] > pprev['time']
            inc = (pre[0].get('restarts_in_a_row') or 0) > (pprev.get('restarts_in_a_row') or 0)
            r.check(adv or inc, 'progress', f'{tag}: block {bi} neither advanced ({pprev["time"]!r} -> {pre[0]["time"]!r}) nor increased the retry counter')
        prev = t0b
    # accepted steps are accepted exactly once and tile
    acc = [e for b in blocks for e in b['post'] if not e.get('restart')]
    ts = [e['time'] for e in acc]
    r.check(len(ts) == len(set(ts)), 'accepted-once', f'{tag}: a start time was accepted twice: {ts}')
    if raised is None and acc:
        acc_sorted = sorted(acc, key=lambda e: e['time'])
        last_end = acc_sorted[-1]['time'] + acc_sorted[-1]['dt']
        r.check(last_end >= Tend - 1e-12, 'run-reaches-Tend', f'{tag}: no error raised but the run stopped at {last_end!r} < Tend {Tend!r}')


def run_script(case, r):
    from pySDC.core.errors import ConvergenceError
    from pySDC.implementations.controller_classes.controller_nonMPI import controller_nonMPI
    from pySDC.implementations.convergence_controller_classes.basic_restarting import BasicRestartingNonMPI

    from vf.mon.probes import RestartInjector
    from vf.mon.tracehook import find_hook, make_trace_hook

    cfg = case['cfg']
    procs, mr, rffs, fac, crash = cfg['procs'], cfg['mr'], cfg['rffs'], cfg['fac'], cfg['crash']
    r.key = f"script/{cfg}/{case['scripts'][0]}"
    H = make_trace_hook(digests={'pre_step', 'post_step'})
    box = dict(script={})
    cc = {RestartInjector: dict(box=box), BasicRestartingNonMPI: dict(max_restarts=mr, restart_from_first_step=rffs, crash_after_max_restarts=crash)}
    dt0, Tend = 0.25, 1.6
    state = dict(block=-1)
    for script in case['scripts']:
        want = {tuple(x) for x in script}
        # a fresh controller per script: step sizes and retry counters deliberately survive a run (see C19), which would couple the scripts
        ctrl = controller_nonMPI(procs, dict(logger_level=50, dump_setup=False, hook_class=[H], mssdc_jac=False), _base_desc(dt0, 2, cc))
        hook = find_hook(ctrl, H)
        P = ctrl.MS[0].levels[0].prob
        u0 = P.u_init
        u0[:] = 1.0
        orig_rb = ctrl.restart_block

        def restart_block(active_slots, time, u0_, orig_rb=orig_rb):
            state['block'] += 1
            box['block'] = state['block']
            if state['block'] > 4000:
                raise ProgressBound('more than 4000 blocks')
            return orig_rb(active_slots, time, u0_)

        ctrl.restart_block = restart_block
        state['block'] = -1
        box.update(attempts={}, attempt_seen={}, log=[], block=0)
        ordinals = {}
        req_log = {}

        class Script(dict):
            def get(self_, key, default=None):
                if not (isinstance(key, tuple) and len(key) == 2):
                    return default
                tkey, attempt = key
                if tkey not in ordinals:
                    ordinals[tkey] = len(ordinals)
                if (ordinals[tkey], attempt) in want:
                    return dict(dt_factor=fac)
                return default

        box['script'] = Script()
        raised = None
        tag = f'procs={procs} max_restarts={mr} rffs={rffs} crash={crash} fac={fac} script={sorted(want)}'
        try:
            uend, stats = ctrl.run(u0, 0.0, Tend)
        except ConvergenceError as e:
            raised = e
        except ProgressBound as e:
            r.check(False, 'bounded-blocks', f'{tag}: {e} (logical progress bound, not wall clock)')
            continue
        ev = [e for e in hook.events if e['cb'] in ('pre_step', 'post_step')]
        blocks = split_blocks(ev)
        for entry in box['log']:
            req_log[(RestartInjector.tkey(entry['time']), entry['slot'], entry.get('block'))] = entry['inject']
        # the injector log carries the block index through box['block'] at the time of the call
        inj = {}
        for entry in box['log']:
            inj.setdefault((round(entry['time'], 12), entry['slot']), []).append(entry['inject'])
        per_block_seen = {}

        def requested(bi, slot, e):
            lst = inj.get((round(e['time'], 12), slot), [])
            k = per_block_seen.get((round(e['time'], 12), slot), 0)
            per_block_seen[(round(e['time'], 12), slot)] = k + 1
            return lst[k] if k < len(lst) else None

        check_blocks(r, tag, blocks, Tend, mr, rffs, crash, requested, raised)
        # P3b: a ConvergenceError is only legitimate if some step asked for a restart with the first slot's budget exhausted
        if raised is not None:
            last = blocks[-1]
            first_pre = sorted(last['pre'], key=lambda e: e['slot'])[0]
            r.check(crash and (first_pre.get('restarts_in_a_row') or 0) >= mr, 'error-only-when-budget-exhausted', f'{tag}: ConvergenceError raised with restarts_in_a_row={first_pre.get("restarts_in_a_row")} < max_restarts={mr} or crash disabled')
            r.count('convergence_errors')
        # bounded progress
        nacc = sum(1 for b in blocks for e in b['post'] if not e.get('restart'))
        r.check(len(blocks) <= (nacc + 2) * (mr + 2) + 4, 'bounded-blocks', f'{tag}: {len(blocks)} blocks for {nacc} accepted steps')
        r.count('runs')
        if any(e.get('restart') for b in blocks for e in b['post']):
            r.nontrivial = True
            r.count('runs_with_restart')
    r.observe('cfg', f'{procs}/{mr}/{rffs}/{crash}/{fac}')
    r.sample = dict(cfg=cfg, script=case['scripts'][-1])


def install_block_counter(ctrl, box, bound=6000):
    orig_rb = ctrl.restart_block
    box['block'] = -1

    def restart_block(active_slots, time, u0_):
        box['block'] += 1
        if box['block'] > bound:
            raise ProgressBound(f'more than {bound} blocks')
        return orig_rb(active_slots, time, u0_)

    ctrl.restart_block = restart_block


def run_adapt(case, r):
    from pySDC.core.errors import ConvergenceError
    from pySDC.implementations.controller_classes.controller_nonMPI import controller_nonMPI
    from pySDC.implementations.convergence_controller_classes.adaptivity import Adaptivity
    from pySDC.implementations.convergence_controller_classes.basic_restarting import BasicRestartingNonMPI

    from vf.mon.probes import ErrorInjector, make_probe
    from vf.mon.tracehook import find_hook, make_trace_hook

    procs, mr, e_tol, beta, lim, maxiter = case['procs'], case['mr'], case['e_tol'], case['beta'], case['lim'], case['maxiter']
    crash = case['crash']
    rffs = bool(case.get('rffs'))
    dt0 = case['dt']
    r.key = f"adapt/{'wholeblock/' if rffs else ''}{procs}/{mr}/{e_tol:.2e}/{beta}/{sorted(lim.items())}/{dt0:.3e}/{maxiter}/{case['eseed']}"
    H = make_trace_hook(digests={'pre_step', 'post_step'})
    box = dict(script={}, attempts={})
    cache = {}

    def fun(time, dt, attempt):
        """error model e = e_tol * (dt/dref)^(k+1) with a seeded reference step size per (time bucket, attempt): smaller steps
        give smaller errors (so retries terminate) while dref jumps hostilely between attempts and positions"""
        key = (int(round(time / dt0 * 2)), min(attempt, 6))
        if key not in cache:
            g = np.random.default_rng([case['eseed'], key[0] & 0xFFFFFFF, key[1]])
            cache[key] = dt0 * 2.0 ** g.uniform(-case['spread'] - 0.5, 1.0)
        return float(e_tol * (dt / cache[key]) ** (maxiter + 1))

    box['fun'] = fun
    PA, PB, PC = make_probe(-49, 'ProbeAfterAdaptivity'), make_probe(91.5, 'ProbeAfterSlope'), make_probe(92.5, 'ProbeAfterLimiter')
    cc = {Adaptivity: dict(e_tol=e_tol, beta=beta, **lim), ErrorInjector: dict(box=box), PA: dict(box=box), PB: dict(box=box), PC: dict(box=box),
          BasicRestartingNonMPI: dict(max_restarts=mr, crash_after_max_restarts=crash, restart_from_first_step=rffs)}
    desc = _base_desc(dt0, maxiter, cc)
    ctrl = controller_nonMPI(procs, dict(logger_level=50, dump_setup=False, hook_class=[H], mssdc_jac=False), desc)
    install_block_counter(ctrl, box)
    hook = find_hook(ctrl, H)
    P = ctrl.MS[0].levels[0].prob
    u0 = P.u_init
    u0[:] = 1.0
    raised = None
    Tend = case['Tend']
    tag = r.key
    try:
        uend, stats = ctrl.run(u0, 0.0, Tend)
    except ConvergenceError as e:
        raised = e
    except ProgressBound as e:
        # the block bound is a harness guard, not a verdict: a hostile error model can legitimately drive the controller into a
        # large-step-rejected / tiny-step-accepted cycle that advances by 1e-4*dt0 per block.  The recorded prefix is judged by
        # the same monitors (the per-block 'progress' and 'retry-budget' clauses decide "advances or stops"); clauses that need
        # the end of the run are skipped.
        raised = e
        r.count('runs_truncated_at_block_bound')
    ev = [e for e in hook.events if e['cb'] in ('pre_step', 'post_step')]
    blocks = split_blocks(ev)
    if isinstance(raised, ProgressBound) and blocks and len(blocks[-1]['post']) != len(blocks[-1]['pre']):
        blocks = blocks[:-1]
    if any(e['dt'] < 1e-7 * dt0 for e in ev):
        r.count('degenerate_tiny_dt_runs')
        r.check(True, 'noop', '')
        return
    smin, smax = lim.get('dt_slope_min', 0), lim.get('dt_slope_max', np.inf)
    dmin, dmax = lim.get('dt_min', 0), lim.get('dt_max', np.inf)
    relmin = lim.get('dt_rel_min_slope', 0)
    have_slope = any(k in lim for k in ('dt_slope_min', 'dt_slope_max', 'dt_rel_min_slope'))
    have_lim = len(lim) > 0
    # probe records at iter == maxiter, keyed by (block, slot)
    rec = {}
    for p in box.get('probe', []):
        if p['iter'] == maxiter and p['phase'] == 'dt':
            rec.setdefault((p['block'], p['slot']), {})[p['order']] = p
    final = {}
    asked = {}
    for (bi, slot), by in sorted(rec.items()):
        a = by.get(-49)
        if a is None or a['err'] is None:
            continue
        e_est, dt, t = a['err'], a['dt'], a['time']
        prop = beta * dt * (e_tol / e_est) ** (1.0 / maxiter)
        r.check(a['dt_new'] is not None and abs(a['dt_new'] - prop) <= 1e-13 * prop, 'proposal-formula', f'{tag}: block {bi} slot {slot} t={t!r}: proposed dt {a["dt_new"]!r}, beta*dt*(tol/err)^(1/order) = {prop!r} (dt={dt!r}, err={e_est:.3e}, order={maxiter})')
        r.check(bool(a['restart']) == (e_est >= e_tol), 'restart-iff-error-exceeds-tolerance', f'{tag}: block {bi} slot {slot}: e_est={e_est:.3e}, e_tol={e_tol:.3e}, restart flag after Adaptivity = {a["restart"]}')
        asked[(bi, slot)] = (e_est >= e_tol, e_est)
        cur = a['dt_new']
        if cur is None:
            continue
        if have_slope and 91.5 in by:
            ratio = cur / dt
            if ratio < smin:
                exp = dt * smin
            elif ratio > smax:
                exp = dt * smax
            elif abs(ratio - 1) < relmin and not a['restart']:
                exp = dt
            else:
                exp = cur
            got = by[91.5]['dt_new']
            r.check(got is not None and abs(got - exp) <= 1e-14 * abs(exp), 'slope-limit', f'{tag}: block {bi} slot {slot}: after the slope limiter dt_new={got!r}, expected {exp!r} (proposal {cur!r}, dt {dt!r}, limits [{smin},{smax}], rel_min {relmin}, restart {a["restart"]})')
            cur = exp
        if have_lim and 92.5 in by:
            exp = min(max(cur, dmin), dmax)
            got = by[92.5]['dt_new']
            r.check(got is not None and abs(got - exp) <= 1e-14 * abs(exp), 'absolute-limit', f'{tag}: block {bi} slot {slot}: after the limiter dt_new={got!r}, expected {exp!r} (in {cur!r}, limits [{dmin},{dmax}])')
            cur = exp
        final[(bi, slot)] = cur
        r.nontrivial = True
    # P2 with the known mechanism (Tend cap recomputed from step sizes already overwritten in the same loop)
    for bi, b in enumerate(blocks):
        pre = sorted(b['pre'], key=lambda e: e['slot'])
        dts = sorted({e['dt'] for e in pre})
        if len(dts) > 1 and bi > 0:
            ppost = sorted(blocks[bi - 1]['post'], key=lambda e: e['slot'])
            pflags = [bool(e.get('restart')) for e in ppost]
            if any(pflags) and pflags.index(True) >= 1 and len(dts) == 2:
                k = pflags.index(True)
                size = len(ppost)
                cap_new = (Tend - ppost[k]['time'] - dts[0]) / size
                if abs(dts[1] - cap_new) <= 1e-12 * abs(cap_new) or abs(dts[1] - min(final.get((bi - 1, k), np.inf), cap_new)) <= 1e-12 * abs(cap_new):
                    r.check(False, 'one-dt-per-block', f'{tag}: block {bi} runs with two step sizes {dts}: after the restart of slot {k} the cap to reach Tend was recomputed with a step size already overwritten for earlier steps', mech='tend-cap-uses-already-updated-step-size-after-restart-of-later-slot')
                    r.count('known_p2_runs')
                    return

    def requested(bi, slot, e):
        return asked.get((bi, slot), (None, None))[0]

    check_blocks(r, tag, blocks, Tend, mr, rffs, crash, requested, raised)
    # next block's dt: spread from the first restarted step (or the last one), capped to reach Tend, never below dt_initial by that cap
    for bi, b in enumerate(blocks[:-1]):
        pre = sorted(b['pre'], key=lambda e: e['slot'])
        post = sorted(b['post'], key=lambda e: e['slot'])
        if len(post) != len(pre):
            continue
        flags = [bool(e.get('restart')) for e in post]
        k = flags.index(True) if any(flags) else len(post) - 1
        if rffs and any(flags):
            # whole-block restart: the smallest (limited) proposal among the steps of the block is spread
            if any((bi, s_) not in final for s_ in range(len(post))):
                continue
            dtn = min(final[(bi, s_)] for s_ in range(len(post)))
            r.count('wholeblock_restarts_with_all_proposals')
            if min(range(len(post)), key=lambda s_: final[(bi, s_)]) > 0:
                r.count('wholeblock_minimum_not_in_first_slot')
        elif (bi, k) not in final:
            continue
        else:
            dtn = final[(bi, k)]
        size = len(pre)
        nxt = sorted(blocks[bi + 1]['pre'], key=lambda e: e['slot'])
        # the spread value may be capped so that the block reaches Tend, but never below the initial step size by that cap;
        # both ways of measuring the remaining interval that the controller uses are accepted
        caps = [(Tend - nxt[0]['time']) / size, (Tend - pre[k]['time'] - pre[k]['dt']) / size, (Tend - pre[k]['time']) / size]
        allowed = [dtn] + [max(c, dt0) for c in caps if max(c, dt0) < dtn]
        ok = any(abs(nxt[0]['dt'] - a_) <= 1e-12 * abs(a_) for a_ in allowed)
        r.check(ok, 'next-block-step-size', f'{tag}: block {bi + 1} runs with dt={nxt[0]["dt"]!r}; the {"smallest limited proposal of" if rffs and any(flags) else f"limited proposal of slot {k} in"} block {bi} is {dtn!r}; admissible values (proposal, or the cap to reach Tend but not below dt_initial={dt0!r}): {allowed}')
        if any(flags):
            # every step that was itself rejected (its own estimate exceeded the tolerance) must be retried with a smaller step
            for j in ([s_ for s_ in range(len(post)) if asked.get((bi, s_), (False,))[0] and (bi, s_) in final] if rffs else [k]):
                dj = final[(bi, j)] if rffs else dtn
                lower_binds = (dmin > 0 and dj <= dmin * (1 + 1e-12)) or smin >= 1.0 or dj <= pre[j]['dt'] * smin * (1 + 1e-12)
                if not lower_binds:
                    r.check(nxt[0]['dt'] < pre[j]['dt'], 'retry-with-smaller-step', f'{tag}: rejected step of block {bi} slot {j} (dt={pre[j]["dt"]!r}) is retried with dt={nxt[0]["dt"]!r} although no lower limit binds (limited proposal {dj!r})')
    # accepted steps respect the tolerance unless the budget was exhausted
    for bi, b in enumerate(blocks):
        pre = sorted(b['pre'], key=lambda e: e['slot'])
        for e in sorted(b['post'], key=lambda e: e['slot']):
            if (bi, e['slot']) in asked and not e.get('restart'):
                over, err = asked[(bi, e['slot'])]
                exhausted = (pre[0].get('restarts_in_a_row') or 0) >= mr
                if over:
                    mech = 'restart-request-of-later-slot-swallowed-when-first-slot-budget-exhausted' if (exhausted and crash and e['slot'] > 0) else None
                    r.check((not crash) and exhausted, 'accepted-step-within-tolerance', f'{tag}: accepted step t={e["time"]!r} (block {bi} slot {e["slot"]}) has e_est={err:.3e} >= e_tol={e_tol:.3e} (budget exhausted: {exhausted}, crash: {crash})', mech=mech)
                else:
                    r.check(True, 'accepted-step-within-tolerance', '')
    r.observe('limiters', ','.join(sorted(lim)))
    r.count('proposals', len(final))
    r.sample = dict(case={k: v for k, v in case.items() if not k.startswith('_')}, blocks=len(blocks), raised=bool(raised))


def run_real(case, r):
    from pySDC.core.errors import ConvergenceError
    from pySDC.helpers.stats_helper import get_sorted
    from pySDC.implementations.controller_classes.controller_nonMPI import controller_nonMPI
    from pySDC.implementations.convergence_controller_classes.adaptivity import Adaptivity, AdaptivityRK
    from pySDC.implementations.problem_classes.Lorenz import LorenzAttractor
    from pySDC.implementations.problem_classes.TestEquation_0D import testequation0d
    from pySDC.implementations.problem_classes.Van_der_Pol_implicit import vanderpol
    from pySDC.implementations.sweeper_classes.generic_implicit import generic_implicit
    from pySDC.implementations.sweeper_classes.Runge_Kutta import ARK548L2SAESDIRK, Cash_Karp, DIRK43, ESDIRK53, Heun_Euler

    from vf.mon.probes import make_probe
    from vf.mon.tracehook import find_hook, make_trace_hook

    which, e_tol, procs, dt = case['which'], case['e_tol'], case['procs'], case['dt']
    r.key = f'real/{which}/{e_tol:.2e}/{procs}/{dt:.2e}'
    H = make_trace_hook(digests={'pre_step', 'post_step'})
    box = {}
    PA = make_probe(-49, 'ProbeAfterAdaptivity')
    rk = None
    if which == 0:
        pc, pp, Tend = vanderpol, dict(mu=5.0, newton_tol=1e-11, newton_maxiter=100, u0=np.array([2.0, 0.0])), 0.5
    elif which == 1:
        pc, pp, Tend = LorenzAttractor, dict(newton_tol=1e-11, newton_maxiter=100), 0.3
    elif which == 2:
        pc, pp, Tend = testequation0d, dict(lambdas=np.array([-5.0, -20.0 + 3j]), u0=1.0), 0.5
    else:
        pc, pp, Tend = vanderpol, dict(mu=2.0, newton_tol=1e-11, newton_maxiter=100, u0=np.array([2.0, 0.0])), 0.5
        rk = [Cash_Karp, DIRK43, ESDIRK53][which - 3] if which - 3 < 3 else Heun_Euler
        procs = 1
    if rk is None:
        maxiter = 3
        cc = {Adaptivity: dict(e_tol=e_tol), PA: dict(box=box)}
        desc = dict(problem_class=pc, problem_params=pp, sweeper_class=generic_implicit, sweeper_params=dict(num_nodes=3, quad_type='RADAU-RIGHT', QI='LU'),
                    level_params=dict(dt=dt, restol=-1), step_params=dict(maxiter=maxiter), convergence_controllers=cc)
        order = maxiter
    else:
        maxiter = 1
        order = rk.get_update_order()
        rkpar = dict(e_tol=e_tol)
        pick = int(round(-np.log10(e_tol) * 1000)) % 3
        if pick:
            # the order used in the proposal is a documented parameter: a value the user states wins over the sweeper's own
            order = max(1, order + (1 if pick == 1 else -1))
            rkpar['update_order'] = order
        r.observe('rk_update_order', 'user' if pick else 'sweeper')
        cc = {AdaptivityRK: rkpar, PA: dict(box=box)}
        desc = dict(problem_class=pc, problem_params=pp, sweeper_class=rk, sweeper_params={}, level_params=dict(dt=dt, restol=-1), step_params=dict(maxiter=1), convergence_controllers=cc)
    ctrl = controller_nonMPI(procs, dict(logger_level=50, dump_setup=False, hook_class=[H], mssdc_jac=False), desc)
    hook = find_hook(ctrl, H)
    P = ctrl.MS[0].levels[0].prob
    u0 = P.u_exact(0.0)
    raised = None
    try:
        uend, stats = ctrl.run(u0, 0.0, Tend)
    except ConvergenceError as e:
        raised = e
    tag = r.key
    pr = [p for p in box.get('probe', []) if p['iter'] == maxiter and p['phase'] == 'dt']
    for p in pr:
        if p['err'] is None or p['dt_new'] is None:
            continue
        prop = 0.9 * p['dt'] * (e_tol / p['err']) ** (1.0 / order)
        r.check(abs(p['dt_new'] - prop) <= 1e-12 * prop, 'proposal-formula', f'{tag}: proposed {p["dt_new"]!r} vs beta*dt*(tol/err)^(1/{order}) = {prop!r}')
        r.check(bool(p['restart']) == (p['err'] >= e_tol), 'restart-iff-error-exceeds-tolerance', f'{tag}: err {p["err"]:.3e} tol {e_tol:.3e} restart {p["restart"]}')
        r.nontrivial = True
    ev = [e for e in hook.events if e['cb'] in ('pre_step', 'post_step')]
    blocks = split_blocks(ev)
    asked = {}
    for p in pr:
        if p['err'] is not None:
            asked.setdefault((round(p['time'], 12), p['slot']), []).append(p['err'] >= e_tol)
    seen = {}

    def requested(bi, slot, e):
        lst = asked.get((round(e['time'], 12), slot), [])
        k = seen.get((round(e['time'], 12), slot), 0)
        seen[(round(e['time'], 12), slot)] = k + 1
        return lst[k] if k < len(lst) else None

    check_blocks(r, tag, blocks, Tend, 10, False, True, requested, raised)
    if raised is None:
        # logged error estimates of accepted steps are within tolerance
        for t, v in get_sorted(stats, type='error_embedded_estimate', recomputed=False, sortby='time'):
            r.check(v < e_tol or v <= e_tol, 'accepted-step-within-tolerance', f'{tag}: accepted step ending at {t!r} logged e_est={v:.3e} > e_tol={e_tol:.3e}')
    r.observe('real', f'{which}:{type(raised).__name__ if raised else "ok"}')
    r.sample = dict(case={k: v for k, v in case.items() if not k.startswith('_')}, blocks=len(blocks), restarts=sum(1 for b in blocks for e in b['post'] if e.get('restart')))


def run_variant(case, r):
    """error-based step-size controllers other than plain embedded adaptivity, and its optional modes: every ACCEPTED step
    attempt must carry an error estimate <= e_tol (the run raises instead when the retry budget is exhausted), rejected
    attempts are retried at the same start time, time advances otherwise.  One step per block."""
    from pySDC.core.errors import ConvergenceError
    from pySDC.implementations.controller_classes.controller_nonMPI import controller_nonMPI
    from pySDC.implementations.convergence_controller_classes.adaptivity import Adaptivity, AdaptivityExtrapolationWithinQ, AdaptivityPolynomialError
    from pySDC.implementations.convergence_controller_classes.basic_restarting import BasicRestartingNonMPI
    from pySDC.implementations.problem_classes.Lorenz import LorenzAttractor
    from pySDC.implementations.problem_classes.TestEquation_0D import testequation0d
    from pySDC.implementations.problem_classes.Van_der_Pol_implicit import vanderpol
    from pySDC.implementations.sweeper_classes.generic_implicit import generic_implicit

    from vf.mon.tracehook import find_hook, make_trace_hook

    variant, which, e_tol, dt, maxiter = case['variant'], case['which'], case['e_tol'], case['dt'], case['maxiter']
    r.key = f'variant/{variant}/{which}/{e_tol:.2e}/{dt:.2e}/{maxiter}'
    tag = r.key
    field = 'error_extrapolation_estimate' if variant == 'extrap' else 'error_embedded_estimate'

    def extra(ev, step, level_number):
        if ev['cb'] == 'post_step':
            L = step.levels[0]
            ev['est'] = L.status.get(field)
            ev['res'] = L.status.residual
            ev['dt_new'] = L.status.dt_new

    H = make_trace_hook(extra=extra)
    if which == 0:
        pc, pp, Tend = vanderpol, dict(mu=5.0, newton_tol=1e-12, newton_maxiter=100, u0=np.array([2.0, 0.0])), 0.6
    elif which == 1:
        pc, pp, Tend = LorenzAttractor, dict(newton_tol=1e-12, newton_maxiter=100), 0.2
    else:
        pc, pp, Tend = testequation0d, dict(lambdas=np.array([-5.0, -20.0 + 3j]), u0=1.0), 0.6
    lp = dict(dt=dt, restol=-1)
    if variant == 'avoid':
        cc = {Adaptivity: dict(e_tol=e_tol, avoid_restarts=True)}
    elif variant in ('poly', 'poly_nomax'):
        lp['restol'] = 1e-11
        cc = {AdaptivityPolynomialError: dict(e_tol=e_tol, restart_at_maxiter=(variant == 'poly'), interpolate_between_restarts=bool(case['seed'] % 2))}
    else:
        lp['restol'] = 1e-11
        cc = {AdaptivityExtrapolationWithinQ: dict(e_tol=e_tol, restart_at_maxiter=bool(case['seed'] % 2))}
    cc[BasicRestartingNonMPI] = dict(max_restarts=case['mr'])
    desc = dict(problem_class=pc, problem_params=pp, sweeper_class=generic_implicit, sweeper_params=dict(num_nodes=3, quad_type='RADAU-RIGHT', QI=['IE', 'LU'][case['seed'] % 2]),
                level_params=lp, step_params=dict(maxiter=maxiter), convergence_controllers=cc)
    try:
        ctrl = controller_nonMPI(1, dict(logger_level=50, dump_setup=False, hook_class=[H], mssdc_jac=False), desc)
    except Exception as e:  # noqa
        r.count('variant_rejected_at_construction')
        r.observe('variant_rejected', f'{variant}:{type(e).__name__}')
        r.check(True, 'noop', '')
        return
    install_block_counter(ctrl, {}, bound=3000)
    hook = find_hook(ctrl, H)
    P = ctrl.MS[0].levels[0].prob
    raised = None
    try:
        with np.errstate(all='ignore'):
            ctrl.run(P.u_exact(0.0), 0.0, Tend)
    except ConvergenceError as e:
        raised = e
    except ProgressBound as e:
        raised = e
        r.count('runs_truncated_at_block_bound')
    posts = [e for e in hook.events if e['cb'] == 'post_step']
    pres = [e for e in hook.events if e['cb'] == 'pre_step']
    nrej = 0
    for i, e in enumerate(posts):
        est = e.get('est')
        if e.get('restart'):
            nrej += 1
            if i + 1 < len(pres):
                r.check(pres[i + 1]['time'] == e['time'], 'restart-resumes-at-first-restarted-step', f'{tag}: attempt at t={e["time"]!r} rejected, next attempt starts at {pres[i + 1]["time"]!r}')
            continue
        if est is None:
            r.count('accepted_without_estimate')
            continue
        r.check(est <= e_tol, 'accepted-step-within-tolerance', f'{tag}: step at t={e["time"]!r} (dt={e["dt"]:.3e}, {e["iter"]} iterations, residual {e.get("res")}) was accepted with {field}={est:.3e} > e_tol={e_tol:.3e}; retry budget not exhausted (no error raised)')
        r.count('variant_accepted_steps')
        if i + 1 < len(pres):
            r.check(pres[i + 1]['time'] > e['time'], 'progress', f'{tag}: accepted step at t={e["time"]!r} followed by a step at {pres[i + 1]["time"]!r}')
    r.count('variant_rejected_attempts', nrej)
    if any(e['iter'] > maxiter for e in posts):
        r.count('variant_steps_beyond_maxiter')
    r.nontrivial = len(posts) > 0
    r.observe('variant', f'{variant}:{type(raised).__name__ if raised else "ok"}')
    r.sample = dict(case={k: v for k, v in case.items() if not k.startswith('_')}, attempts=len(posts), rejected=nrej)


def run_case(case):
    r = Result(case)
    dict(script=run_script, adapt=run_adapt, real=run_real, variant=run_variant)[case['kind']](case, r)
    r.count('kind:' + case['kind'])
    return r


def finalize(agg):
    out = []
    c = agg['counters']
    for k in ('oracle:request-never-swallowed', 'oracle:restart-resumes-at-first-restarted-step', 'oracle:proposal-formula', 'oracle:slope-limit', 'oracle:absolute-limit',
              'oracle:next-block-step-size', 'oracle:retry-budget', 'oracle:accepted-step-within-tolerance', 'oracle:restart-iff-error-exceeds-tolerance'):
        if c.get(k, 0) == 0:
            out.append(f'monitor {k} never evaluated')
    if c.get('restarts_observed', 0) == 0:
        out.append('no restart was observed')
    if c.get('wholeblock_minimum_not_in_first_slot', 0) == 0:
        out.append('no whole-block restart whose smallest proposal came from a later slot was judged')
    if c.get('convergence_errors', 0) == 0:
        out.append('no ConvergenceError was observed (budget exhaustion never reached)')
    for k, why in (('variant_accepted_steps', 'no accepted step of an adaptivity variant was judged'), ('variant_rejected_attempts', 'no adaptivity variant rejected an attempt'), ('variant_steps_beyond_maxiter', 'avoid_restarts never continued a step beyond maxiter')):
        if c.get(k, 0) == 0:
            out.append(why)
    if not {'avoid:ok', 'poly:ok', 'poly_nomax:ok', 'extrap:ok'} <= set(agg['seen'].get('variant', ())):
        out.append(f"not every adaptivity variant completed a run: {sorted(agg['seen'].get('variant', ()))}")
    return out


def coverage_extra(agg, tier):
    return dict(enumerated='all 299 restart scripts with <= 3 requests over (4 start-time ordinals x 3 attempts) for each configuration listed in observed.cfg',
                block_runs=agg['counters'].get('runs', 0), restarts_observed=agg['counters'].get('restarts_observed', 0))
