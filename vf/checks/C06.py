"""C06 — accepted steps tile [t0, Tend] contiguously and chain their values exactly.

Offline checker over the pre_step/post_step trace (start time, dt, digests of u[0] and uend, restart flag) of real
controller_nonMPI runs; the step-count clause is decided in exact rational arithmetic on the float inputs.
"""

from fractions import Fraction as Fr

import numpy as np

from vf.core import Result, digest

PROPERTY = 'C06'
LEVEL = 'exploration'
TECHNIQUE = 'offline trace checker (ordering, contiguity, bit-exact value chaining) + exact-rational step-count model'
RULE = (
    'one case = one run with random (t0, dt, Tend) [large |t0|, decimal-looking dt, Tend on/off the step grid, 1..300 (quick) / 3000 (thorough) steps], '
    '1-8 steps per block incl. blocks longer than the remaining interval, 1-2 levels, optional scripted restarts with step-size halving; '
    'non-trivial = >=2 accepted steps and all chain oracles evaluated; distinct by (t0, dt, Tend, procs, levels, restart script)'
)
ASSUMPTIONS = [
    'time bookkeeping is problem independent: scalar/vector Dahlquist, 1-2 nodes, maxiter 1-2 (cheap), restol=-1',
    'contiguity tolerance (procs+2) ulp of the larger time (first block uses t0+sum(dt), later blocks incremental sums)',
    'count clause only for runs without step-size change: N_lo <= N <= N_strict with N_strict = min{N: t0+N dt >= Tend-10eps}, N_lo = min{N: t0+N dt >= Tend-8N eps max(|t0|,|Tend|)} in exact rationals',
]
EXHAUSTIVE = {'quick': False, 'thorough': False}
EPS = float(np.finfo(float).eps)


def cases(tier, seed):
    rng = np.random.default_rng(seed + 606)
    cs = []
    n = 600 if tier == 'quick' else 8000
    maxsteps = 300 if tier == 'quick' else 3000
    nice = [0.1, 0.01, 0.3, 0.25, 0.2, 0.05, 1e-3, 0.7, 1.0 / 3.0, 0.125]
    for i in range(n):
        kind = i % 6
        procs = int(rng.integers(1, 9))
        if kind in (0, 1):
            dt = float(rng.choice(nice))
            nsteps = int(rng.integers(1, maxsteps if kind == 0 else 40))
            t0 = float(rng.choice([0.0, 1.0, -1.0, 0.5, 100.0, float(rng.integers(-1000, 1000))]))
            # decimal-looking Tend computed by the caller as a literal (round to 10 digits), on the grid mathematically
            Tend = float(repr(round(t0 + nsteps * dt, 10)))
        elif kind == 2:
            dt = float(10 ** rng.uniform(-4, 1))
            nsteps = int(rng.integers(1, 60))
            t0 = float(rng.uniform(-5, 5))
            Tend = t0 + (nsteps - float(rng.uniform(0.05, 0.95))) * dt  # off grid
        elif kind == 3:
            mag = float(10 ** rng.uniform(2, 8)) * float(rng.choice([-1, 1]))
            dt = float(10 ** rng.uniform(-2, 1))
            nsteps = int(rng.integers(1, 80))
            t0 = mag
            Tend = t0 + nsteps * dt if rng.random() < 0.5 else t0 + (nsteps - 0.4) * dt
        elif kind == 4:
            dt = float(2.0 ** -int(rng.integers(0, 8)))  # exactly representable: no rounding anywhere
            nsteps = int(rng.integers(1, maxsteps))
            t0 = float(rng.integers(-16, 16))
            Tend = t0 + nsteps * dt
        else:
            dt = float(rng.uniform(0.01, 2))
            nsteps = int(rng.integers(1, 3 * procs + 2))
            t0 = float(rng.uniform(-2, 2))
            Tend = t0 + nsteps * dt * float(rng.choice([1.0, 1.0 - 1e-12, 1.0 + 1e-12, 0.999, 1.001]))
        if not Tend > t0:
            Tend = t0 + dt
        restarts = []
        if i % 4 == 3:
            # scripted restarts: (accepted-step ordinal at which a restart is requested, dt factor)
            for _ in range(int(rng.integers(1, 4))):
                restarts.append([int(rng.integers(0, max(1, min(nsteps, 30)))), float(rng.choice([0.5, 0.5, 1.0, 0.25]))])
        cs.append(dict(t0=t0, dt=dt, Tend=Tend, procs=procs, nlev=int(rng.choice([1, 1, 2])), maxiter=int(rng.integers(1, 3)), restarts=restarts, swv=int(rng.integers(0, 6)),
                       jac=bool(rng.random() < 0.5), nexp=nsteps, _cost=nsteps + 5))
    return cs


def ulp(x):
    return float(np.spacing(abs(x))) if x != 0 else 5e-324


def exact_counts(t0, dt, Tend):
    T0, DT, TE = Fr(t0), Fr(dt), Fr(Tend)
    import math

    def first_N(target):
        # min N >= 1 with T0 + N DT >= target  (at least one step is always taken when t0 < Tend - 10 eps)
        N = math.ceil((target - T0) / DT)
        return max(1, N)

    N_strict = first_N(TE - 10 * Fr(EPS))
    big = max(abs(T0), abs(TE))
    # N_lo: smallest N with T0 + N DT >= TE - 8 N eps big  <=>  N (DT + 8 eps big) >= TE - T0
    N_lo = max(1, math.ceil((TE - T0) / (DT + 8 * Fr(EPS) * big)))
    return N_lo, N_strict


def run_case(case):
    from pySDC.implementations.controller_classes.controller_nonMPI import controller_nonMPI
    from pySDC.implementations.problem_classes.TestEquation_0D import testequation0d
    from pySDC.implementations.sweeper_classes.generic_implicit import generic_implicit
    from pySDC.implementations.transfer_classes.TransferMesh_NoCoarse import mesh_to_mesh as nocoarse

    from vf.mon.probes import RestartInjector
    from vf.mon.tracehook import find_hook, make_trace_hook

    r = Result(case)
    t0, dt, Tend, procs, nlev = case['t0'], case['dt'], case['Tend'], case['procs'], case['nlev']
    r.key = f'{t0!r}/{dt!r}/{Tend!r}/{procs}/{nlev}/{case["restarts"]}/{case.get("swv", 0)}'
    # end point = last node (default) or the collocation update (sweepers whose end value is not their last node)
    swv = [('RADAU-RIGHT', False), ('RADAU-RIGHT', False), ('GAUSS', False), ('RADAU-LEFT', False), ('RADAU-RIGHT', True), ('LOBATTO', True)][case.get('swv', 0) if not (nlev > 1 and case.get('swv', 0) in (2, 3)) else 4]  # multi-level runs insist on a node at the right end
    r_swv = swv
    H = make_trace_hook(digests={'pre_step', 'post_step'})
    box = dict(script={})
    desc = dict(
        problem_class=testequation0d, problem_params=dict(lambdas=np.array([-0.3 + 0.2j, -1.0]), u0=1.0), sweeper_class=generic_implicit,
        sweeper_params=dict(num_nodes=[2, 2][:nlev] if nlev > 1 else 2, quad_type=swv[0], QI='IE', do_coll_update=swv[1]) if swv != ('RADAU-RIGHT', False) else dict(num_nodes=[2, 1][:nlev] if nlev > 1 else 2, quad_type='RADAU-RIGHT', QI='IE'), level_params=dict(dt=dt, restol=-1),
        step_params=dict(maxiter=case['maxiter']), convergence_controllers={RestartInjector: dict(box=box)},
    )
    if nlev > 1:
        desc.update(space_transfer_class=nocoarse, space_transfer_params={})
    ctrl = controller_nonMPI(procs, dict(logger_level=50, dump_setup=False, hook_class=[H], mssdc_jac=case['jac']), desc)
    hook = find_hook(ctrl, H)
    # restart script is expressed in accepted-step ordinals; translate on the fly: the injector looks up (start time key, attempt)
    # -> we feed it lazily through a dict subclass that decides from the number of accepted steps seen so far
    pending = sorted(case['restarts'])

    class Script(dict):
        def get(self, key, default=None):
            if not pending or not isinstance(key, tuple) or len(key) != 2:
                return default
            acc = sum(1 for e in hook.events if e['cb'] == 'post_step' and not e.get('restart'))
            tkey, attempt = key
            if attempt == 0 and pending and acc >= pending[0][0]:
                f = pending.pop(0)[1]
                return dict(dt_factor=f)
            return default

    box['script'] = Script()
    P = ctrl.MS[0].levels[0].prob
    u0 = P.u_init
    u0[:] = [1.0 + 0.5j, -0.25]
    u0_dig = digest(u0)
    u0_id = id(u0)
    uend, stats = ctrl.run(u0, t0, Tend)
    r.check(digest(u0) == u0_dig, 'caller-u0-unchanged', f'{r.key}: the caller\'s u0 was modified by run()')
    if case['restarts']:
        # second leg on the SAME controller (step sizes left behind by the first leg may differ from step to step)
        ev1 = list(hook.events)
        acc1 = sorted([e for e in ev1 if e['cb'] == 'post_step' and not e.get('restart')], key=lambda e: (e['time'], e['seq']))
        if acc1:
            t1 = acc1[-1]['time'] + acc1[-1]['dt']
            T2 = t1 + 2.7 * procs * max(e['dt'] for e in acc1)
            hook.events.clear()
            u1_dig = digest(uend)
            uend2, _ = ctrl.run(uend, t1, T2)
            r.check(digest(uend) == u1_dig, 'caller-u0-unchanged', f'{r.key}: second leg modified the value passed in')
            acc2 = sorted([e for e in hook.events if e['cb'] == 'post_step' and not e.get('restart')], key=lambda e: (e['time'], e['seq']))
            r.check(len(acc2) >= 1 and acc2[0]['time'] == t1, 'second-leg-first-start', f'{r.key}: second leg starts at {acc2[0]["time"] if acc2 else None!r}, asked {t1!r}')
            for a, b in zip(acc2[:-1], acc2[1:]):
                gap = b['time'] - (a['time'] + a['dt'])
                tol = (procs + 2) * ulp(max(abs(a['time']), abs(b['time']), abs(a['dt'])))
                r.check(abs(gap) <= tol, 'contiguous', f'{r.key}: second leg on the re-used controller: accepted step at {b["time"]!r} does not start where the previous one ({a["time"]!r} + {a["dt"]!r}) ends: gap {gap:.3e}')
                mech2 = 'jacobi-coupling-end-value-recomputed-after-it-was-sent' if ((case['jac'] or nlev > 1) and r_swv != ('RADAU-RIGHT', False) and b.get('slot', 0) >= 2 and procs >= 3) else None
                r.check(b['dig'][0]['u'][0] == a['dig'][0]['uend'], 'value-chain', f'{r.key}: second leg: step at t={b["time"]!r} does not start from the previous end value', mech=mech2)
            if acc2:
                r.check(digest(uend2) == acc2[-1]['dig'][0]['uend'], 'returned-is-last-end', f'{r.key}: second leg: returned value is not the last end value')
                r.check(acc2[-1]['time'] + acc2[-1]['dt'] >= T2 - max(10 * EPS, 4 * ulp(T2)), 'reaches-Tend', f'{r.key}: second leg stopped before its Tend')
                r.count('second_legs')
                r.observe('second_leg_distinct_dt', len({e['dt'] for e in acc2}) > 1)
            hook.events[:] = ev1
    ev_pre = [e for e in hook.events if e['cb'] == 'pre_step']
    ev_post = [e for e in hook.events if e['cb'] == 'post_step']
    acc = sorted([e for e in ev_post if not e.get('restart')], key=lambda e: (e['time'], e['seq']))
    r.check(len(acc) >= 1, 'has-steps', f'{r.key}: no accepted step')
    if not acc:
        return r
    changed_dt = any(abs(e['dt'] - dt) > 0 for e in acc) or any(e.get('restart') for e in ev_post)
    # 1. first start
    r.check(acc[0]['time'] == t0, 'first-start-is-t0', f'{r.key}: first accepted step starts at {acc[0]["time"]!r}, t0={t0!r}')
    first_pre = ev_pre[0]
    r.check(first_pre['dig'][0]['u'][0] == u0_dig, 'first-u0-is-callers-value', f'{r.key}: first step does not start from the caller\'s value')
    r.check(first_pre['ids']['u0'] != u0_id, 'first-u0-is-a-copy', f'{r.key}: first step uses the caller\'s object itself')
    # 2./3. contiguity and chaining
    for a, b in zip(acc[:-1], acc[1:]):
        gap = b['time'] - (a['time'] + a['dt'])
        tol = (procs + 2) * ulp(max(abs(a['time']), abs(b['time']), abs(a['dt'])))
        r.check(abs(gap) <= tol, 'contiguous', f'{r.key}: accepted step at {b["time"]!r} does not start where the previous one ({a["time"]!r} + {a["dt"]!r}) ends: gap {gap:.3e} (tol {tol:.1e})')
        # known mechanism (Jacobi coupling, end value by collocation update): a step's end value is recomputed from the start
        # value it received in its last check, after the older end value had already been handed to its successor; the first
        # hand-over of a block is exact because the first step's start value never changes
        mech = 'jacobi-coupling-end-value-recomputed-after-it-was-sent' if ((case['jac'] or nlev > 1) and r_swv != ('RADAU-RIGHT', False) and b.get('slot', 0) >= 2 and procs >= 3) else None
        r.check(b['dig'][0]['u'][0] == a['dig'][0]['uend'], 'value-chain', f'{r.key}: step at t={b["time"]!r} (slot {b.get("slot")}) does not start from the end value of the step at t={a["time"]!r} (bitwise; sweeper end point {r_swv})', mech=mech)
    # 5. no step starts at or beyond Tend
    for e in ev_pre:
        r.check(e['time'] < Tend, 'no-start-beyond-Tend', f'{r.key}: a step starts at {e["time"]!r} >= Tend {Tend!r}')
    # 6. reached Tend
    last_end = acc[-1]['time'] + acc[-1]['dt']
    r.check(last_end >= Tend - max(10 * EPS, 4 * ulp(Tend)), 'reaches-Tend', f'{r.key}: run stopped at {last_end!r} before Tend {Tend!r}')
    # 7. returned value
    r.check(digest(uend) == acc[-1]['dig'][0]['uend'], 'returned-is-last-end', f'{r.key}: returned value is not the end value of the last accepted step')
    # one accepted step per start time
    starts = [e['time'] for e in acc]
    r.check(len(set(starts)) == len(starts), 'no-duplicate-accepted-start', f'{r.key}: a start time was accepted twice')
    # 8. count
    if not changed_dt:
        N_lo, N_strict = exact_counts(t0, dt, Tend)
        N = len(acc)
        mech = None
        if N == N_strict + 1:
            # extra step: was the (N_strict+1)-th step started because the *accumulated float* start fell below Tend-10eps although
            # the exact rational t0 + N_strict*dt is >= Tend - 10 eps ?
            extra = acc[-1]
            exact_start = Fr(t0) + N_strict * Fr(dt)
            dev = abs(Fr(extra['time']) - exact_start)
            if dev <= (N_strict + 2) * Fr(ulp(max(abs(Tend), abs(t0)))) and exact_start >= Fr(Tend) - 10 * Fr(EPS) and extra['time'] < Tend - 10 * EPS:
                mech = 'extra-step-float-accumulation'
        r.check(N_lo <= N <= N_strict, 'step-count', f'{r.key}: {N} accepted steps, exact arithmetic gives between {N_lo} and {N_strict} (t0={t0!r}, dt={dt!r}, Tend={Tend!r}, last start {acc[-1]["time"]!r})', mech=mech)
        r.count('count_judged')
    else:
        r.count('count_skipped_variable_dt')
    r.nontrivial = len(acc) >= 2
    r.observe('procs', procs)
    r.observe('n_steps_bucket', int(np.log2(len(acc))) if len(acc) else -1)
    r.observe('restarts_seen', sum(1 for e in ev_post if e.get('restart')) > 0)
    r.count('accepted_steps', len(acc))
    r.count('restarted_attempts', sum(1 for e in ev_post if e.get('restart')))
    r.sample = dict(case={k: v for k, v in case.items() if not k.startswith('_')}, accepted=len(acc), first=[e['time'] for e in acc[:3]], last_start=acc[-1]['time'])
    return r


def finalize(agg):
    out = []
    c = agg['counters']
    for k in ('oracle:contiguous', 'oracle:value-chain', 'oracle:step-count', 'oracle:returned-is-last-end'):
        if c.get(k, 0) == 0:
            out.append(f'monitor {k} never evaluated')
    if c.get('restarted_attempts', 0) == 0:
        out.append('no restarted attempt was observed: restart histories not exercised')
    return out
