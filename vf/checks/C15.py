"""C15 — ParaDiag diagonalises the all-at-once system and converges to the serial answer.

(a) helper matrices against the analytic eigen-decomposition of the alpha-circulant matrix built by the harness;
(b) the real QDiagonalization sweeper on a loaded level against a dense solve of (G x I - dt Q x A) U = rhs;
(c) converged controller_ParaDiag_nonMPI runs against sequential dense collocation stepping; the controller's own
    FFT_in_time / iFFT_in_time are observed through wrappers and compared with the helper matrices.
"""

import numpy as np

from vf.core import Result

PROPERTY = 'C15'
LEVEL = 'exploration'
TECHNIQUE = 'runtime contracts on helper matrices (analytic alpha-circulant spectrum) + differential monitor of the diagonalisation sweeper and of converged ParaDiag runs vs dense collocation'
RULE = (
    'kind=mat: one (n_steps 1..16, alpha over ten decades, node count 1..5); kind=sweep: one loaded level (G_inv of a random step or identity, ignore_ic on/off, dense or diagonal operator, IMEX variant); '
    'kind=run: one ParaDiag run (n_steps, alpha, nodes, Dahlquist/heat/advection, implicit/IMEX, averaged Jacobian on/off, 1-2 blocks); non-trivial = oracle compared values; distinct by parameters'
)
ASSUMPTIONS = [
    'tolerance for the transform identities 1e-11 * cond(J), cond(J) = alpha^-((n-1)/n); cases beyond cond 1e10 are counted as ill conditioned and not judged',
    'run clause: |u_step - u_coll| <= 10 * kappa * restol with kappa = inf-norm of the inverse all-at-once matrix built by the harness (+1e-9 when alpha^(..) round-off dominates)',
    'complex arithmetic: problem init dtype is switched to complex128 as the repository\'s own ParaDiag tests do',
]
EXHAUSTIVE = {'quick': False, 'thorough': False}


def cases(tier, seed):
    rng = np.random.default_rng(seed + 1515)
    cs = []
    alphas = [1.0, 0.3, 1e-1, 1e-2, 1e-3, 1e-4, 1e-5, 1e-6, 1e-7, 1e-8, 1e-9, 1e-10]
    for n in range(1, 17):
        for a in alphas:
            if tier == 'quick' and (n * 7 + int(-np.log10(a) * 3)) % 3:
                continue
            cs.append(dict(kind='mat', n=n, alpha=a, M=int(rng.integers(1, 6)), _cost=n))
    for i in range(120 if tier == 'quick' else 12000):
        cs.append(dict(kind='sweep', M=int(rng.integers(1, 6)), n=int(rng.integers(1, 5)), L=int(rng.integers(1, 17)), alpha=float(alphas[int(rng.integers(1, len(alphas)))]),
                       ident=bool(rng.random() < 0.3), ignore_ic=bool(rng.random() < 0.5), imex=bool(rng.random() < 0.4), dtexp=float(rng.uniform(-2.5, 0)), seed=int(rng.integers(0, 2**31)), _cost=5))
    for i in range(70 if tier == 'quick' else 6000):
        L = int(rng.choice([1, 2, 3, 4, 5, 8, 12, 16]))
        cs.append(dict(kind='run', L=L, M=int(rng.integers(1, 6)), alpha=float(alphas[int(rng.integers(1, len(alphas)))]), prob=['dahlquist', 'dahlquist_imex', 'heat', 'heatf', 'adv'][i % 5],
                       avg=bool(rng.random() < 0.5), blocks=int(rng.integers(1, 4)), dtexp=float(rng.uniform(-2.5, -0.7)), t0=float(rng.choice([0.0, 1.0, -0.7, float(rng.uniform(-3, 5))])), seed=int(rng.integers(0, 2**31)), _cost=L * 6))
    for (L, al) in [(16, 1e-8), (16, 1e-9), (12, 1e-9), (8, 1e-10), (16, 1e-4), (5, 1e-10)]:
        for prob in ('dahlquist', 'heat'):
            cs.append(dict(kind='run', L=L, M=int(rng.integers(1, 4)), alpha=al, prob=prob, avg=False, blocks=1, dtexp=-1.5, seed=int(rng.integers(0, 2**31)), _cost=L * 6))
    return cs


def E_alpha(n, alpha):
    E = np.zeros((n, n), dtype=complex)
    for i in range(1, n):
        E[i, i - 1] = -1.0
    E[0, n - 1] += -alpha
    return E


def run_mat(case, r):
    from pySDC.helpers import ParaDiagHelper as H

    n, alpha, M = case['n'], case['alpha'], case['M']
    r.key = f'mat/{n}/{alpha:g}/{M}'
    W = np.asarray(H.get_weighted_FFT_matrix(n, alpha))
    Wi = np.asarray(H.get_weighted_iFFT_matrix(n, alpha))
    condJ = alpha ** (-(n - 1) / n)
    if condJ > 1e10:
        r.count('ill_conditioned')
        r.check(True, 'noop', '')
        return
    tol = 1e-11 * max(condJ, 1.0)
    I = np.eye(n)
    e1 = float(np.max(np.abs(W @ Wi - I)))
    e2 = float(np.max(np.abs(Wi @ W - I)))
    r.check(e1 <= tol and e2 <= tol, 'transforms-inverse', f'{r.key}: |W W^-1 - I| = {e1:.3e}, |W^-1 W - I| = {e2:.3e} (tol {tol:.1e})')
    D = -(alpha ** (1.0 / n)) * np.exp(-2j * np.pi * np.arange(n) / n)  # analytic spectrum of the alpha-circulant E_alpha
    E = E_alpha(n, alpha)
    Dm = W @ E @ Wi
    e3 = float(np.max(np.abs(Dm - np.diag(D))))
    r.check(e3 <= tol, 'diagonalises-alpha-circulant', f'{r.key}: W E_alpha W^-1 differs from diag(-alpha^(1/n) w^-l) by {e3:.3e} (tol {tol:.1e})')
    Es = H.get_E_matrix(n, alpha).toarray()
    r.check(float(np.max(np.abs(Es - E))) <= 1e-15, 'E-matrix', f'{r.key}: get_E_matrix is not the alpha-circulant shift')
    # per-step factors used by the local solves
    Hm = np.zeros((M, M))
    Hm[:, -1] = 1.0
    for l in range(n):
        if abs(1 + D[l]) < 1e-12:
            r.count('singular_factor_alpha_1')  # alpha = 1, l = 0: the plain circulant system is singular, no inverse exists
            continue
        Gi = np.asarray(H.get_G_inv_matrix(l, n, alpha, dict(num_nodes=M, quad_type='RADAU-RIGHT')))
        G = D[l] * Hm + np.eye(M)
        e4 = float(np.max(np.abs(Gi @ G - np.eye(M))))
        r.check(Gi.shape == (M, M) and e4 <= 1e-11 * max(1.0, float(np.linalg.cond(G))), 'G-inverse-uses-same-factor', f'{r.key}: G_inv({l}) (D_l H + I) differs from I by {e4:.3e} (D_l = {D[l]:.6g})')
    r.nontrivial = True
    r.observe('n', n)
    r.sample = dict(case={k: v for k, v in case.items() if not k.startswith('_')}, condJ=condJ, errs=[e1, e2, e3])


def run_sweep(case, r):
    from pySDC.helpers import ParaDiagHelper as H
    from pySDC.implementations.sweeper_classes.ParaDiagSweepers import QDiagonalization, QDiagonalizationIMEX

    from vf import harness_problems as hp
    from vf.levelkit import make_step, rand_matrix
    from vf.ref import sdc as ref

    rng = np.random.default_rng(case['seed'])
    M, n = case['M'], case['n']
    dt = 10 ** case['dtexp']
    A = rand_matrix(rng, n, 'stable', True)
    B = rand_matrix(rng, n, 'any', True, scale=0.5)
    r.key = f"sweep/{M}/{n}/{case['L']}/{case['alpha']:g}/id{case['ident']}/ic{case['ignore_ic']}/imex{case['imex']}"
    if case['ident']:
        Ginv = np.eye(M, dtype=complex)
    else:
        l = int(rng.integers(0, case['L']))
        Ginv = np.asarray(H.get_G_inv_matrix(l, case['L'], case['alpha'], dict(num_nodes=M, quad_type='RADAU-RIGHT')), dtype=complex)
    swp = dict(num_nodes=M, quad_type='RADAU-RIGHT', G_inv=Ginv, ignore_ic=case['ignore_ic'], update_f_evals=False)
    if case['imex']:
        S = make_step(hp.DenseIMEX, dict(A=A, B=B), QDiagonalizationIMEX, swp, dict(dt=dt))
    else:
        S = make_step(hp.DenseLinear, dict(A=A), QDiagonalization, swp, dict(dt=dt))
    L = S.levels[0]
    P = L.prob
    gen = ref.coll(M, 'LEGENDRE', 'RADAU-RIGHT')
    Q = np.array(gen.Q)
    t0 = 0.3
    L.status.time = t0
    L.status.unlocked = True
    u0 = rng.standard_normal(n) + 1j * rng.standard_normal(n)
    L.u[0] = P.u_init
    L.u[0][:] = u0
    R = rng.standard_normal((M, n)) + 1j * rng.standard_normal((M, n))
    for m in range(M):
        L.u[m + 1] = P.u_init
        L.residual[m] = P.u_init
        L.residual[m][:] = R[m]
        L.increment[m] = P.u_init
    # the sweeper is judged as configured at construction and again after every later set_G_inv() on the same object
    # (ParaDiag re-configures one sweeper per block/rank): each configuration must solve ITS system
    configs = [('constructed', Ginv)]
    for k in range(case.get('reconf', 2)):
        if rng.random() < 0.3:
            G2 = np.eye(M, dtype=complex)
        else:
            l2 = int(rng.integers(0, case['L']))
            a2 = case['alpha'] if rng.random() < 0.5 else float(10 ** rng.uniform(-8, 0))
            G2 = np.asarray(H.get_G_inv_matrix(l2, case['L'], a2, dict(num_nodes=M, quad_type='RADAU-RIGHT')), dtype=complex)
        configs.append((f'set_G_inv#{k + 1}', G2))
    # ... and after the level's step size was changed (step-size control, a re-used controller): same object, other dt
    for k in range(2):
        configs.append((f'dt-changed#{k + 1}', None))
    for ci, (cname, Gi) in enumerate(configs):
        if Gi is None:
            dt = dt * float([0.37, 2.3, 0.5, 1.7][int(rng.integers(0, 4))])
            L.params.dt = dt
            Gi = np.asarray(L.sweep.params.G_inv)
            R = rng.standard_normal((M, n)) + 1j * rng.standard_normal((M, n))
            for m in range(M):
                L.residual[m][:] = R[m]
            r.count('sweeps_after_dt_change')
        elif ci > 0:
            try:
                L.sweep.set_G_inv(Gi)
            except AssertionError:
                r.count('diagonalisation_refused')
                break
            r.check(np.array_equal(np.asarray(L.sweep.params.G_inv), Gi), 'set-G-inv-stored', f'{r.key}: params.G_inv after set_G_inv is not the matrix passed in')
            R = rng.standard_normal((M, n)) + 1j * rng.standard_normal((M, n))
            for m in range(M):
                L.residual[m][:] = R[m]
        with np.errstate(all='ignore'):
            try:
                G = np.linalg.inv(Gi)
            except np.linalg.LinAlgError:
                r.count('ill_conditioned')
                continue
        lhs = np.kron(G, np.eye(n)) - dt * np.kron(Q, A)
        cond = np.linalg.cond(lhs) * max(1.0, np.linalg.cond(Gi))
        try:
            L.sweep.update_nodes()
        except AssertionError as e:
            # computeDiagonalization asserts its own eigen-decomposition: defective Q G^-1 (observed, not a property violation)
            r.count('diagonalisation_refused')
            r.check(True, 'noop', '')
            break
        if not np.isfinite(cond) or cond > 1e8 or np.linalg.cond(L.sweep.S) > 1e8:
            r.count('ill_conditioned')
            r.check(True, 'noop', '')
            continue
        if case['ignore_ic']:
            rhs = R.reshape(-1)
            got = np.array([np.asarray(L.increment[m]) for m in range(M)])
        else:
            rhs = np.tile(u0, M)
            got = np.array([np.asarray(L.u[m + 1]) for m in range(M)])
        exp = np.linalg.solve(lhs, rhs).reshape(M, n)
        e = float(np.max(np.abs(got - exp)))
        sc = max(1.0, float(np.max(np.abs(exp))))
        r.check(e <= 1e-11 * max(cond, np.linalg.cond(L.sweep.S)) * sc, 'diagonalisation-sweep-solves-collocation', f'{r.key} [{cname}]: sweeper result differs from the dense solve of (G x I - dt Q x A) U = rhs by {e:.3e} (cond {cond:.1e})')
        r.nontrivial = True
        if ci > 0:
            r.count('reconfigured_sweeps')
        r.sample = dict(case={k: v for k, v in case.items() if not k.startswith('_')}, err=e)
    r.observe('sweep', f"id{case['ident']}/ic{case['ignore_ic']}/imex{case['imex']}")


def run_run(case, r):
    from pySDC.helpers import ParaDiagHelper as H
    from pySDC.helpers.stats_helper import get_sorted
    from pySDC.implementations.controller_classes.controller_ParaDiag_nonMPI import controller_ParaDiag_nonMPI
    from pySDC.implementations.hooks.log_solution import LogSolution
    from pySDC.implementations.sweeper_classes.ParaDiagSweepers import QDiagonalization, QDiagonalizationIMEX

    from vf.gen import linearize
    from vf.ref import sdc as ref

    rng = np.random.default_rng(case['seed'])
    L, M, alpha = case['L'], case['M'], case['alpha']
    dt = 10 ** case['dtexp']
    prob = case['prob']
    r.key = f"run/{prob}/{L}/{M}/{alpha:g}/avg{case['avg']}/b{case['blocks']}/t0={case.get('t0', 0.0):.3g}"
    condJ = alpha ** (-(L - 1) / L)
    if condJ > 1e10:
        r.count('ill_conditioned')
        r.check(True, 'noop', '')
        return
    if prob == 'dahlquist':
        from pySDC.implementations.problem_classes.TestEquation_0D import testequation0d as pc

        pp, sw = dict(lambdas=np.array(-10 ** rng.uniform(-1, 1, 3) + 1j * rng.uniform(-3, 3, 3)), u0=1.0), QDiagonalization
    elif prob == 'dahlquist_imex':
        from pySDC.implementations.problem_classes.TestEquation_0D import test_equation_IMEX as pc

        pp, sw = dict(lambdas_implicit=np.array(-10 ** rng.uniform(-1, 1, 3) + 0j), lambdas_explicit=np.array(1j * rng.uniform(-0.3, 0.3, 3)), u0=1.0), QDiagonalizationIMEX
    elif prob == 'heat':
        from pySDC.implementations.problem_classes.HeatEquation_ND_FD import heatNd_unforced as pc

        pp, sw = dict(nvars=7, nu=float(10 ** rng.uniform(-2, -0.5)), freq=1, bc='dirichlet-zero'), QDiagonalization
    elif prob == 'heatf':
        from pySDC.implementations.problem_classes.HeatEquation_ND_FD import heatNd_forced as pc

        pp, sw = dict(nvars=7, nu=float(10 ** rng.uniform(-2, -0.5)), freq=1, bc='dirichlet-zero'), QDiagonalizationIMEX
    else:
        from pySDC.implementations.problem_classes.AdvectionEquation_ND_FD import advectionNd as pc

        pp, sw = dict(nvars=8, c=float(rng.uniform(0.1, 0.5)), freq=2, bc='periodic'), QDiagonalization
    restol = 1e-9
    desc = dict(problem_class=pc, problem_params=pp, sweeper_class=sw, sweeper_params=dict(num_nodes=M, quad_type='RADAU-RIGHT', initial_guess='spread'),
                level_params=dict(dt=dt, restol=restol), step_params=dict(maxiter=60))
    cp = dict(logger_level=50, dump_setup=False, hook_class=[LogSolution], mssdc_jac=False, alpha=alpha, average_jacobian=case['avg'])
    ctrl = controller_ParaDiag_nonMPI(num_procs=L, controller_params=cp, description=desc)
    for S in ctrl.MS:
        p_ = S.levels[0].prob
        p_.init = tuple([*p_.init[:2]] + [np.dtype('complex128')])
    # observe the controller's own time transforms
    seen = dict(fft=0, ifft=0, worst=0.0)
    W = np.asarray(H.get_weighted_FFT_matrix(L, alpha))
    Wi = np.asarray(H.get_weighted_iFFT_matrix(L, alpha))
    orig_apply = ctrl.apply_matrix

    def apply_matrix(mat, quantity):
        mat_ = np.asarray(mat)
        which = cur['which']
        before = None
        if quantity == 'residual' or quantity == 'increment' or True:
            try:
                before = [[np.array(np.asarray(getattr(S.levels[0], quantity)[m]), copy=True) for m in range(M)] for S in ctrl.MS]
            except Exception:  # noqa
                before = None
        out = orig_apply(mat, quantity)
        if which is not None:
            refm = W if which == 'fft' else Wi
            seen['matdiff'] = max(seen.get('matdiff', 0.0), float(np.max(np.abs(mat_ - refm))))
        if before is not None and which is not None:
            after = [[np.asarray(getattr(S.levels[0], quantity)[m]) for m in range(M)] for S in ctrl.MS]
            for m in range(M):
                vec = np.array([before[i][m].reshape(-1) for i in range(L)])
                exp = mat_ @ vec
                got = np.array([after[i][m].reshape(-1) for i in range(L)])
                rowmag = np.abs(mat_) @ np.abs(vec)  # per entry: sum_j |mat_ij| |vec_j|
                with np.errstate(all='ignore'):
                    rel = np.abs(got - exp) / np.where(rowmag > 0, rowmag, 1.0)
                seen['worst'] = max(seen['worst'], float(np.max(rel)))
            seen[which] += 1
        return out

    ctrl.apply_matrix = apply_matrix
    cur = dict(which=None)
    o_fft, o_ifft = ctrl.FFT_in_time, ctrl.iFFT_in_time

    def fft_in_time(quantity):
        cur['which'] = 'fft'
        try:
            return o_fft(quantity)
        finally:
            cur['which'] = None

    def ifft_in_time(quantity):
        cur['which'] = 'ifft'
        try:
            return o_ifft(quantity)
        finally:
            cur['which'] = None

    ctrl.FFT_in_time, ctrl.iFFT_in_time = fft_in_time, ifft_in_time
    # ---- one ParaDiag iteration == one alpha-circulant preconditioned Richardson step on the all-at-once collocation system
    # (decided on every iteration, whether or not the run converges)
    twin_it = pc(**pp)
    A_it, B_it, g_it = linearize(twin_it, 0.0)
    Af_it = np.asarray(A_it + B_it, dtype=complex)
    n_it = Af_it.shape[0]
    gen_it = ref.coll(M, 'LEGENDRE', 'RADAU-RIGHT')
    Q_it, nodes_it = np.array(gen_it.Q), np.array(gen_it.nodes)
    Hm = np.zeros((M, M))
    Hm[:, -1] = 1.0
    E = np.diag(np.ones(L - 1), -1) if L > 1 else np.zeros((1, 1))
    Ea = E.astype(complex).copy()
    Ea[0, -1] += alpha
    blk = np.eye(M * n_it) - dt * np.kron(Q_it, Af_it)
    Cm = np.kron(np.eye(L), blk) - np.kron(E, np.kron(Hm, np.eye(n_it)))
    # the local solves go through solve_jacobian = solve_system: the implicit piece only (the explicit piece lives in the residual)
    Pm = np.kron(np.eye(L), np.eye(M * n_it) - dt * np.kron(Q_it, np.asarray(A_it, dtype=complex))) - np.kron(Ea, np.kron(Hm, np.eye(n_it)))
    condP = float(np.linalg.cond(Pm))
    orig_it = ctrl.it_ParaDiag
    itmon = dict(n=0, worst=0.0)

    def it_paradiag(local_MS_running):
        run_ = list(local_MS_running)
        ok_shape = len(run_) == L and [S_.status.slot for S_ in run_] == list(range(L))
        if ok_shape:
            Uold = np.array([[np.asarray(S_.levels[0].u[m + 1]).reshape(-1) for m in range(M)] for S_ in run_], dtype=complex)
            ublock = np.asarray(run_[0].levels[0].u[0]).reshape(-1).astype(complex)
            t_blk = run_[0].levels[0].time
        out = orig_it(local_MS_running)
        if ok_shape and condP < 1e9:
            Unew = np.array([[np.asarray(S_.levels[0].u[m + 1]).reshape(-1) for m in range(M)] for S_ in run_], dtype=complex)
            b = np.zeros((L, M, n_it), dtype=complex)
            for l in range(L):
                Gl = np.array([g_it(t_blk + l * dt + dt * c) for c in nodes_it], dtype=complex).reshape(M, n_it)
                b[l] = dt * (Q_it @ Gl)
            b[0] += ublock[None, :]
            res_ = b.reshape(-1) - Cm @ Uold.reshape(-1)
            exp_ = Uold.reshape(-1) + np.linalg.solve(Pm, res_)
            sc_ = max(1.0, float(np.max(np.abs(exp_))))
            itmon['worst'] = max(itmon['worst'], float(np.max(np.abs(Unew.reshape(-1) - exp_))) / sc_)
            itmon['n'] += 1
        return out

    ctrl.it_ParaDiag = it_paradiag
    P = ctrl.MS[0].levels[0].prob
    u0 = P.u_exact(0.0)
    t0 = float(case.get('t0', 0.0))
    Tend = t0 + (case['blocks'] * L - 0.5) * dt  # the controller completes the block it has started; half a step short avoids the floating-point tie at the block boundary
    try:
        uend, stats = ctrl.run(u0, t0, Tend)
    except Exception as e:  # noqa
        from vf.core import in_sut

        r.check(False, 'run-completes', f'{r.key}: ParaDiag run raised {type(e).__name__}: {e}')
        return
    r.check(seen['fft'] > 0 and seen['ifft'] > 0, 'controller-transforms-observed', f'{r.key}: the controller never applied the helper transforms (fft {seen["fft"]}, ifft {seen["ifft"]})')
    r.check(seen.get('matdiff', 0.0) <= 1e-13 * max(1.0, condJ), 'controller-uses-helper-matrices', f'{r.key}: the matrix handed to apply_matrix differs from the helper transform by {seen.get("matdiff", 0.0):.3e}')
    r.check(seen['worst'] <= 1e-12 * L, 'controller-applies-helper-transforms', f'{r.key}: apply_matrix result differs from matrix x data by {seen["worst"]:.3e} relative to sum_j |mat_ij||x_j|')
    if itmon['n'] > 0:
        r.check(itmon['worst'] <= 1e-11 * max(1.0, condP) + 5e-15 * condJ * L, 'paradiag-iteration-is-alpha-circulant-richardson', f'{r.key}: after a ParaDiag iteration the node values differ from U + P_alpha^-1 (b - C U) by {itmon["worst"]:.3e} relative (cond P_alpha {condP:.1e}, conditioning of the weighted transform {condJ:.1e}, {itmon["n"]} iterations watched)')
        r.count('paradiag_iterations_watched', itmon['n'])
        r.nontrivial = True
    res = [v for _, v in get_sorted(stats, type='residual_post_step', sortby='time')]
    nit = [v for _, v in get_sorted(stats, type='niter', sortby='time')]
    if not res or max(res) > restol:
        r.count('premise_false_not_converged')
        r.check(True, 'noop', '')
        r.observe('not_converged', f'{prob}/{L}/{alpha:g}')
        return
    # sequential collocation oracle
    twin = pc(**pp)
    A, B, g = linearize(twin, 0.0)
    Af = A + B
    gen = ref.coll(M, 'LEGENDRE', 'RADAU-RIGHT')
    Q = np.array(gen.Q)
    nodes = np.array(gen.nodes)
    prev = np.asarray(u0).reshape(-1).astype(complex)
    logged = get_sorted(stats, type='u', sortby='time')
    nsteps = case['blocks'] * L
    r.check(len(logged) == nsteps, 'all-steps-logged', f'{r.key}: {len(logged)} logged solutions for {nsteps} steps from t0={t0}')
    for k in range(min(nsteps, len(logged))):
        texp = t0 + (k + 1) * dt
        r.check(abs(logged[k][0] - texp) <= 1e-12 * max(1.0, abs(texp)), 'step-times', f'{r.key}: step {k} ends at {logged[k][0]!r}, expected {texp!r} (t0={t0})')
    kappa = 1.0
    for k in range(min(nsteps, len(logged))):
        G = np.array([g(t0 + k * dt + dt * c) for c in nodes])
        U, ninv = ref.collocation_solve(Q, Af, dt, prev, G)
        kappa = max(kappa, ninv)
        prev = U[-1]
        got = np.asarray(logged[k][1]).reshape(-1)
        err = float(np.max(np.abs(got - prev)))
        bound = 10 * kappa * (k % L + 1) * restol * max(1.0, float(np.max(np.abs(prev)))) + 1e-10
        r.check(err <= bound, 'paradiag-equals-sequential-collocation', f'{r.key}: step {k} differs from sequential collocation by {err:.3e} (bound {bound:.2e}, residuals {max(res):.1e}, niter {nit[:3]})')
    e_end = float(np.max(np.abs(np.asarray(uend).reshape(-1) - prev)))
    r.check(e_end <= 10 * kappa * L * restol * max(1.0, float(np.max(np.abs(prev)))) + 1e-10, 'paradiag-returns-last-step', f'{r.key}: returned value differs from the sequential collocation end value by {e_end:.3e}')
    r.nontrivial = True
    r.observe('run', f'{prob}/avg{case["avg"]}')
    r.observe('L', L)
    r.sample = dict(case={k: v for k, v in case.items() if not k.startswith('_')}, niter=nit[:4], max_res=max(res))


def run_case(case):
    r = Result(case)
    dict(mat=run_mat, sweep=run_sweep, run=run_run)[case['kind']](case, r)
    r.count('kind:' + case['kind'])
    return r


def finalize(agg):
    out = []
    c = agg['counters']
    for k in ('oracle:transforms-inverse', 'oracle:diagonalises-alpha-circulant', 'oracle:G-inverse-uses-same-factor', 'oracle:diagonalisation-sweep-solves-collocation',
              'oracle:paradiag-equals-sequential-collocation', 'oracle:controller-applies-helper-transforms'):
        if c.get(k, 0) == 0:
            out.append(f'monitor {k} never evaluated')
    tot = c.get('kind:run', 0)
    if tot and c.get('premise_false_not_converged', 0) > 0.5 * tot:
        out.append(f'{c.get("premise_false_not_converged")} of {tot} ParaDiag runs did not reach the residual tolerance (premise of the run clause)')
    for k, why in (('paradiag_iterations_watched', 'no ParaDiag iteration was compared with the all-at-once model'), ('reconfigured_sweeps', 'no sweep after set_G_inv was judged'), ('sweeps_after_dt_change', 'no sweep after a change of the step size was judged')):
        if c.get(k, 0) == 0:
            out.append(why)
    return out
