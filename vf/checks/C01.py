"""C01 — converged SDC/MLSDC/PFASST returns the fine collocation solution.

Monitor: a trace hook copies the fine level at post_step; the oracle solves the fine collocation system of every
step densely (qmat Q, operator extracted from a twin problem) starting from the previous step's logged end value.
"""

import numpy as np

from vf.core import Result

PROPERTY = 'C01'
LEVEL = 'exploration'
TECHNIQUE = 'trace-hook monitor on real controller runs + dense collocation reference solve per step'
RULE = (
    'one case = one controller_nonMPI run (problem x sweeper x QDelta name x node family/type/count per level x 1-3 levels with space and/or node '
    'coarsening x 1-8 parallel steps x predictor x Jacobi/Gauss-Seidel x nsweeps x residual type x initial guess x restol), dt halved until the '
    'single-level iteration matrix has spectral radius < 0.6; non-trivial = every step stopped on its residual tolerance (premise) and the '
    'collocation oracle judged every step; distinct by configuration tuple'
)
ASSUMPTIONS = [
    'linear problems only: the oracle is a dense linear solve with the operator extracted from a twin problem instance via eval_f on unit vectors',
    'bound: |u_step - u_coll| <= 10 * |(I - dt Q x A)^-1|_inf * restol * scale (+ end-point factor, + 1e3 eps), scale = |u0| for relative residual types; '
    'for last_* residual types the measured full defect replaces restol when it is within 100x of it (otherwise the step is counted as unjudged)',
    'qmat trusted for Q and weights',
]
EXHAUSTIVE = {'quick': False, 'thorough': False}


def cases(tier, seed):
    from vf.gen import gen_run_case

    rng = np.random.default_rng(seed + 101)
    n = 320 if tier == 'quick' else 5000
    cs = []
    for i in range(n):
        c = gen_run_case(rng)
        c['_cost'] = c['num_procs'] * c['nlev'] * c['nsteps'] * (3 if c['prob'] in ('heat', 'heatf', 'adv') else 1)
        cs.append(c)
    return cs


def config_key(c):
    return '/'.join(str(c[k]) for k in ('prob', 'nlev', 'num_procs', 'qt', 'nt', 'Ms', 'space_coarsen', 'QI', 'QE', 'nsweeps', 'predict', 'mssdc_jac', 'residual_type', 'initial_guess', 'finter', 'coll_update'))


def twin_problem(desc):
    pp = {k: (v[0] if isinstance(v, list) else v) for k, v in desc['problem_params'].items()}
    return desc['problem_class'](**pp)


def contraction_dt(case, A, B, gen):
    """halve dt until the single-level sweep iteration matrix has spectral radius < 0.6"""
    from vf.ref import sdc as ref

    Q = np.array(gen.Q)
    sw = case['prob']
    dt = case['dt']
    try:
        QI = ref.qdelta(gen, case['QI'], 1)
        QE = ref.qdelta_explicit(gen, case['QE'], 1)[0]
    except Exception:  # noqa
        return None
    M = Q.shape[0]
    n = A.shape[0]
    I = np.eye(M * n)
    for _ in range(14):
        try:
            if sw in ('dense_x', 'dahlquist_x'):
                K = np.linalg.solve(I - dt * np.kron(QE, A), dt * np.kron(Q - QE, A))
            elif sw in ('dahlquist', 'heat', 'adv', 'dense'):
                K = np.linalg.solve(I - dt * np.kron(QI, A), dt * np.kron(Q - QI, A))
            elif sw in ('dahlquist_imex', 'heatf', 'denseimex'):
                K = np.linalg.solve(I - dt * np.kron(QI, A) - dt * np.kron(QE, B), dt * (np.kron(Q - QI, A) + np.kron(Q - QE, B)))
            else:
                K = np.linalg.solve(I - dt * np.kron(QI, A) - dt * np.kron(QI, B), dt * (np.kron(Q - QI, A) + np.kron(Q - QI, B)))
            rho = float(np.max(np.abs(np.linalg.eigvals(K)))) if np.all(np.isfinite(K)) else np.inf
        except np.linalg.LinAlgError:
            rho = np.inf
        if rho < 0.6:
            return dt
        dt *= 0.5
    return None


def run_case(case):
    from pySDC.helpers.stats_helper import get_sorted
    from pySDC.implementations.hooks.log_solution import LogSolution

    from vf.gen import build_controller, description_for, linearize
    from vf.mon.tracehook import find_hook, make_trace_hook
    from vf.ref import sdc as ref

    r = Result(case)
    r.key = config_key(case)
    case = dict(case)
    try:
        gen = ref.coll(case['Ms'][0], case['nt'], case['qt'])
        for M in case['Ms'][1:]:
            ref.coll(M, case['nt'], case['qt'])
    except Exception:  # noqa
        r.count('rule_rejected_by_qmat')
        r.check(True, 'noop', '')
        return r
    desc0 = description_for(case)
    P = twin_problem(desc0)
    A, B, g = linearize(P, 0.0)
    dt = contraction_dt(case, A, B, gen)
    if dt is None:
        r.count('no_contraction_found')
        r.check(True, 'noop', '')
        return r
    case['dt'] = dt
    H = make_trace_hook(arrays={'post_step'})
    try:
        ctrl, desc = build_controller(case, hooks=[LogSolution, H])
    except Exception as e:  # noqa
        r.count('rejected_at_construction')
        r.observe('rejected', f"{case['prob']}:{case['QI']}:{case['QE']}:{case['nt']}/{case['qt']}:{type(e).__name__}")
        r.check(True, 'noop', '')
        return r
    Pf = ctrl.MS[0].levels[0].prob
    rng = np.random.default_rng(case['pseed'] + 7)
    u0 = Pf.u_init
    shape = np.asarray(u0).shape
    u0[:] = rng.standard_normal(shape) + (1j * rng.standard_normal(shape) if np.iscomplexobj(np.asarray(u0)) else 0)
    u0_bytes = np.array(np.asarray(u0), copy=True)
    t0 = case['t0']
    Tend = t0 + (case['nsteps'] - 0.5) * dt  # off the step grid on purpose: the exact step count at grid-aligned Tend is C06's business
    try:
        with np.errstate(invalid='raise', over='raise', divide='raise'):
            uend, stats = ctrl.run(u0, t0, Tend)
    except ZeroDivisionError as e:
        import traceback

        tb = traceback.format_exc()
        mech = 'relative-residual-divides-by-zero-start-value' if ('compute_residual' in tb and case['residual_type'].endswith('rel')) else None
        r.check(False, 'run-completes', f'{r.key}: run raised ZeroDivisionError: {e}', mech=mech, traceback=tb[-1500:])
        return r
    hook = find_hook(ctrl, H)
    steps = sorted([e for e in hook.events if e['cb'] == 'post_step' and not e.get('restart')], key=lambda e: e['time'])
    r.check(len(steps) >= 1, 'steps-exist', 'no step was recorded')
    Q = np.array(gen.Q)
    w = np.array(gen.weights)
    nodes = np.array(gen.nodes)
    right = case['qt'] in ('LOBATTO', 'RADAU-RIGHT')
    quad_end = (not right) or case.get('coll_update')
    n = A.shape[0]
    Afull = A + B
    prev = u0_bytes.reshape(-1)
    eligible = True
    rtype = case['residual_type']
    logged = get_sorted(stats, type='u', sortby='time')
    worst = 0.0
    for k, ev in enumerate(steps):
        a = ev['arr'][0]
        res, it = ev['residual'], ev['iter']
        if res is None or not (res <= case['restol']):
            eligible = False
            r.count('steps_premise_false')
            break
        U = np.array([np.asarray(x).reshape(-1) for x in a['u']])
        G = np.array([g(ev['time'] + ev['dt'] * c) for c in nodes])
        Uref, ninv = ref.collocation_solve(Q, Afull, ev['dt'], prev, G)
        Fref = (Afull @ Uref.T).T + G
        end_ref = ref.end_point(prev, ev['dt'], w, Fref) if quad_end else Uref[-1]
        end_fac = (1.0 + ev['dt'] * float(np.sum(np.abs(w))) * float(np.linalg.norm(Afull, np.inf))) if quad_end else 1.0
        scale_u = max(1.0, float(np.max(np.abs(Uref))))
        n0 = float(np.max(np.abs(prev)))
        tol_abs = case['restol'] * (n0 if rtype.endswith('rel') else 1.0)
        # true full defect of what the step holds (operator from the twin problem, not the SUT's stored f)
        Ftrue = (Afull @ U[1:].T).T + G
        rfull = float(np.max(np.abs(ref.defect(Q, ev['dt'], U[0], U[1:], Ftrue))))
        if rtype.startswith('last'):
            if rfull > 100 * max(tol_abs, 1e-14):
                r.count('steps_last_type_unjudged')
                prev = np.asarray(a['uend']).reshape(-1)
                continue
            tol_eff = max(tol_abs, rfull)
        else:
            tol_eff = tol_abs
        bound = 10 * ninv * end_fac * tol_eff + 1e3 * np.finfo(float).eps * scale_u * max(ninv, 1.0)
        got_end = np.asarray(a['uend']).reshape(-1)
        err = float(np.max(np.abs(got_end - end_ref)))
        worst = max(worst, err / bound)
        r.check(err <= bound, 'step-equals-collocation', f'{r.key}: step {k} (t={ev["time"]:.4g}, dt={ev["dt"]:.3g}, {it} its, residual {res:.2e}) ends {err:.3e} away from the fine collocation solution started from the previous end value (bound {bound:.2e}, |inv|={ninv:.2f})', step=k)
        # the logged 'u' entry of this step is that value
        if k < len(logged):
            lg = np.asarray(logged[k][1]).reshape(-1)
            r.check(np.array_equal(lg, got_end), 'logged-u-is-step-end', f'{r.key}: LogSolution entry {k} differs from the end value the step held at post_step')
        r.count('steps_judged')
        prev = got_end
    if eligible and steps:
        last = np.asarray(steps[-1]['arr'][0]['uend']).reshape(-1)
        r.check(np.array_equal(np.asarray(uend).reshape(-1), last), 'returned-is-last-end', f'{r.key}: returned value is not the end value of the last step')
        r.check(len(steps) == case['nsteps'], 'all-steps-present', f'{r.key}: {len(steps)} accepted steps recorded, expected {case["nsteps"]}')
        r.nontrivial = r.counters.get('steps_judged', 0) > 0
        r.count('cases_eligible')
    else:
        r.count('cases_premise_false')
    r.observe('prob', case['prob'])
    r.observe('levels_procs', f"{case['nlev']}x{case['num_procs']}")
    r.observe('predict', str(case['predict']))
    r.observe('QI', case['QI'])
    r.observe('rule', f"{case['nt']}/{case['qt']}/{case['Ms']}")
    r.observe('worst_err_over_bound_decile', int(min(worst, 1.0) * 10))
    r.sample = dict(case={k: v for k, v in case.items() if not k.startswith('_')}, niter=[e['iter'] for e in steps], worst_err_over_bound=worst)
    return r


def finalize(agg):
    out = []
    c = agg['counters']
    el, pf = c.get('cases_eligible', 0), c.get('cases_premise_false', 0)
    if c.get('oracle:step-equals-collocation', 0) == 0:
        out.append('collocation oracle never evaluated')
    if el + pf > 0 and el < 0.6 * (el + pf):
        out.append(f'premise (all steps converged to restol) held in only {el}/{el + pf} runs (>= 90% on the unchanged tree): the fixed point or the stopping rule may have changed, the property cannot be judged')
    return out
