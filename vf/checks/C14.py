"""C14 — statistics are a faithful, uniquely keyed record of the run.

Ground truth comes from a trace hook (every step attempt with slot, start/end time, iteration callbacks, restart flag,
restarts_in_a_row) and from instance wrappers that count eval_f / solve_system calls per problem instance; the stats
dictionary and the results of filter_stats / sort_stats / get_sorted are judged against it.
"""

import numpy as np

from vf.core import Result

PROPERTY = 'C14'
LEVEL = 'exploration'
TECHNIQUE = 'offline checker of the stats dictionary against a callback trace + call-counting wrappers (conservation of work), model-based oracle for filter/sort helpers on synthetic dictionaries'
RULE = (
    'kind=history: one run with scripted restarts (positions over start-time ordinal x attempt, step halving on/off), 1-4 steps per block, 1-2 levels, all shipped logging hooks attached; '
    'kind=adaptive: one adaptive run (embedded error hook); kind=synthetic: one random dictionary of Entry keys with random filters; non-trivial = >=1 accepted and (history) the per-attempt record oracle ran; distinct by script/seed'
)
ASSUMPTIONS = [
    'ground truth = callbacks observed by the trace hook and calls observed by the instance wrappers',
    'work counters: harness dense problems (rhs, solves) and testequation0d (rhs)',
    'filter_stats(**keys) ignores keys whose value is None (documented behaviour of the helper)',
]
EXHAUSTIVE = {'quick': False, 'thorough': False}
START_TYPES = ['niter', 'residual_post_step', 'restart', 'dt']
END_TYPES = ['u', 'work_rhs', 'k']


def cases(tier, seed):
    rng = np.random.default_rng(seed + 1414)
    cs = []
    n = 400 if tier == 'quick' else 7000
    for i in range(n):
        procs = int(rng.integers(1, 5))
        k = int(rng.choice([0, 0, 1, 2, 3, 4]))
        script = sorted({(int(rng.integers(0, 6)), int(rng.integers(0, 3))) for _ in range(k)})
        cs.append(dict(kind='history', procs=procs, nlev=int(rng.choice([1, 1, 2])), mr=int(rng.integers(2, 6)), fac=[0.5, None, 1.0, 0.5][int(rng.integers(0, 4))], script=[list(x) for x in script],
                       prob=['dense', 'denseimex', 'dahlquist'][i % 3], maxiter=int(rng.integers(1, 4)), nsteps=int(rng.integers(2, 9)), seed=int(rng.integers(0, 2**31)), _cost=10))
    for i in range(20 if tier == 'quick' else 300):
        cs.append(dict(kind='adaptive', procs=int(rng.choice([1, 1, 2, 3])), e_tol=float(10 ** rng.uniform(-6, -3)), dt=float(10 ** rng.uniform(-1.8, -0.8)), seed=int(rng.integers(0, 2**31)), _cost=40))
    for i in range(60 if tier == 'quick' else 1200):
        cs.append(dict(kind='synthetic', n=int(rng.integers(0, 120)), seed=int(rng.integers(0, 2**31)), _cost=2))
    return cs


def install_call_counters(ctrl, log):
    """count eval_f / solve_system calls per (slot, level); log entries carry a global sequence number"""
    for S in ctrl.MS:
        for li, L in enumerate(S.levels):
            P = L.prob
            for name in ('eval_f', 'solve_system', 'solve_system_1', 'solve_system_2'):
                if not hasattr(P, name):
                    continue
                orig = getattr(P, name)

                def wrapped(*a, orig=orig, S=S, li=li, name=name, **k):
                    log.append((S.status.slot, li, name))
                    return orig(*a, **k)

                setattr(P, name, wrapped)


def attempts_from_trace(events):
    """list of attempts: dict(slot, start, dt, niter, pre_it, restart, ria(restarts_in_a_row at pre_step), seq range)"""
    open_ = {}
    out = []
    for e in events:
        if e.get('slot') is None:
            continue
        if e['cb'] == 'pre_step':
            open_[e['slot']] = dict(slot=e['slot'], start=e['time'], dt=e['dt'], pre_it=0, ria=e.get('restarts_in_a_row') or 0, seq0=e['seq'], calls0=e.get('calls'))
        elif e['cb'] == 'pre_iteration' and e['slot'] in open_:
            open_[e['slot']]['pre_it'] += 1
        elif e['cb'] == 'post_step' and e['slot'] in open_:
            a = open_.pop(e['slot'])
            a.update(niter=e['iter'], restart=bool(e.get('restart')), end=e['time'] + e['dt'], seq1=e['seq'], calls1=e.get('calls'), sweep=e['sweep'], residual=e['residual'], ria_end=e.get('restarts_in_a_row') or 0)
            out.append(a)
    return out


def run_history(case, r):
    from pySDC.helpers.stats_helper import filter_stats, get_list_of_types, get_sorted, sort_stats
    from pySDC.implementations.controller_classes.controller_nonMPI import controller_nonMPI
    from pySDC.implementations.convergence_controller_classes.basic_restarting import BasicRestartingNonMPI
    from pySDC.implementations.hooks.log_solution import LogSolution
    from pySDC.implementations.hooks.log_step_size import LogStepSize
    from pySDC.implementations.hooks.log_work import LogSDCIterations, LogWork
    from pySDC.implementations.problem_classes.TestEquation_0D import testequation0d
    from pySDC.implementations.sweeper_classes.generic_implicit import generic_implicit
    from pySDC.implementations.sweeper_classes.imex_1st_order import imex_1st_order
    from pySDC.implementations.transfer_classes.TransferMesh_NoCoarse import mesh_to_mesh as nocoarse

    from vf import harness_problems as hp
    from vf.levelkit import rand_matrix
    from vf.mon.probes import RestartInjector
    from vf.mon.tracehook import find_hook, make_trace_hook

    rng = np.random.default_rng(case['seed'])
    procs, nlev = case['procs'], case['nlev']
    r.key = f"history/{case['prob']}/{procs}/{nlev}/{case['mr']}/{case['fac']}/{case['script']}/{case['maxiter']}/{case['nsteps']}"
    tag = r.key
    calls = []

    def extra(ev, step, level_number):
        ev['calls'] = len(calls)

    H = make_trace_hook(extra=extra)
    box = dict(script={})
    n = 3
    if case['prob'] == 'dense':
        pc, pp, sw, swp = hp.DenseLinear, dict(A=rand_matrix(rng, n, 'stable')), generic_implicit, dict(QI='LU')
    elif case['prob'] == 'denseimex':
        pc, pp, sw, swp = hp.DenseIMEX, dict(A=rand_matrix(rng, n, 'stable'), B=rand_matrix(rng, n, 'any', scale=0.3)), imex_1st_order, dict(QI='LU', QE='EE')
    else:
        pc, pp, sw, swp = testequation0d, dict(lambdas=np.array([-1.0, -0.3 + 1j]), u0=1.0), generic_implicit, dict(QI='IE')
    swp.update(num_nodes=[3, 2][:nlev] if nlev > 1 else 3, quad_type='RADAU-RIGHT')
    dt0 = 0.1
    desc = dict(problem_class=pc, problem_params=pp, sweeper_class=sw, sweeper_params=swp, level_params=dict(dt=dt0, restol=-1), step_params=dict(maxiter=case['maxiter']),
                convergence_controllers={RestartInjector: dict(box=box), BasicRestartingNonMPI: dict(max_restarts=case['mr'])})
    if nlev > 1:
        desc.update(space_transfer_class=nocoarse, space_transfer_params={})
    from pySDC.implementations.hooks.log_solution import LogSolutionAfterIteration

    hooks = [LogSolution, LogWork, LogStepSize, LogSDCIterations, H]
    per_iter_solution = bool(case['seed'] % 2)
    if per_iter_solution:
        hooks = [LogSolutionAfterIteration, LogWork, LogStepSize, LogSDCIterations, H]
    if case['seed'] % 3 == 0:
        # somebody else uses the problem between the steps (what the error hooks do through u_exact, or a user between two
        # runs): evaluations made before a step's pre_step callbacks belong to no step
        from pySDC.core.hooks import Hooks

        irng = np.random.default_rng(case['seed'] + 5)

        class Intruder(Hooks):
            def pre_step(self, step, level_number):
                super().pre_step(step, level_number)
                L_ = step.levels[0]
                for _ in range(int(irng.integers(1, 5))):
                    L_.prob.eval_f(L_.u[0], L_.time)
                box['intrusions'] = box.get('intrusions', 0) + 1

        hooks = [Intruder] + hooks
    ctrl = controller_nonMPI(procs, dict(logger_level=50, dump_setup=False, hook_class=hooks, mssdc_jac=False), desc)
    hook = find_hook(ctrl, H)
    install_call_counters(ctrl, calls)
    want = {tuple(x) for x in case['script']}
    ordinals = {}

    class Script(dict):
        def get(self_, key, default=None):
            if not (isinstance(key, tuple) and len(key) == 2):
                return default
            tkey, attempt = key
            if tkey not in ordinals:
                ordinals[tkey] = len(ordinals)
            if (ordinals[tkey], attempt) in want:
                return dict(dt_factor=case['fac'])
            return default

    box['script'] = Script()
    P = ctrl.MS[0].levels[0].prob
    u0 = P.u_init
    u0[...] = 1.0
    counters0 = [{k: v.niter for k, v in S.levels[0].prob.work_counters.items()} for S in ctrl.MS]
    from pySDC.core.errors import ConvergenceError

    try:
        uend, stats = ctrl.run(u0, 0.0, case['nsteps'] * dt0 - 1e-9)
    except ConvergenceError:
        r.count('runs_ending_in_convergence_error')
        r.check(True, 'noop', '')
        return
    att = attempts_from_trace(hook.events)
    acc = [a for a in att if not a['restart']]
    rej = [a for a in att if a['restart']]
    r.check(len(acc) >= 1, 'has-accepted', f'{tag}: no accepted step')
    # ---- (1) one raw record per attempt per recorded type, keyed by the true start (or end) time, iteration and restart count
    # records written from iteration-level callbacks carry the step's own restart count as well
    for a in acc:
        for typ, which, iters in [('residual_post_iteration', 'start', range(1, a['niter'] + 1)), ('residual_post_sweep', 'start', range(1, a['niter'] + 1))] + ([('u', 'end', range(1, a['niter'] + 1))] if per_iter_solution else []):
            for it in iters:
                recs = [k for k in stats if k.type == typ and k.process == a['slot'] and k.time == a[which] and k.iter == it and (k.level in (0, -1))]
                good = [k for k in recs if k.num_restarts == a['ria']]
                r.check(len(good) >= 1, 'iteration-record-keyed-by-true-restart-count', f'{tag}: {typ!r} record of slot {a["slot"]} (t={a[which]!r}, iter {it}) should carry num_restarts={a["ria"]}; found {[(k.num_restarts, k.sweep) for k in recs]}')
    post_step_types = [('niter', 'start'), ('residual_post_step', 'start'), ('restart', 'start'), ('dt', 'start'), ('work_rhs', 'end'), ('k', 'end')] + ([] if per_iter_solution else [('u', 'end')])
    for typ, which in post_step_types:
        raw = {k: v for k, v in stats.items() if k.type == typ}
        # abandoned attempts may legitimately be superseded by a later attempt with the same key; accepted steps may not
        r.check(len(acc) <= len(raw) <= len(att), 'one-record-per-attempt', f'{tag}: {len(raw)} raw {typ!r} records for {len(att)} step attempts ({len(acc)} accepted)')
        keyset = {}
        for k, v in raw.items():
            keyset.setdefault((k.process, k.time), []).append((k, v))
        for a in acc:
            t = a[which]
            lst = keyset.get((a['slot'], t), [])
            r.check(len([kv for kv in lst if kv[0].num_restarts == a['ria_end']]) == 1, 'accepted-step-has-exactly-one-record', f'{tag}: {typ!r} records for the accepted step of slot {a["slot"]} at {which} time {t!r} with num_restarts {a["ria_end"]}: {[(k.iter, k.num_restarts) for k, v in lst]}')
            r.check(len(lst) >= 1, 'record-keyed-by-true-time', f'{tag}: no {typ!r} record for the attempt of slot {a["slot"]} at {which} time {t!r}; keys there: {[k.time for (p_, tt), l_ in keyset.items() for k, _ in l_ if p_ == a["slot"]][:6]}')
            if not lst:
                continue
            if typ == 'niter':
                match = [kv for kv in lst if kv[0].iter == a['niter'] and kv[1] == a['niter']]
                r.check(len(match) >= 1, 'niter-record-value', f'{tag}: niter records at t={t!r} slot {a["slot"]}: {[(k.iter, v) for k, v in lst]}, the attempt performed {a["niter"]} iterations')
                r.check(a['niter'] == a['pre_it'], 'niter-equals-iteration-callbacks', f'{tag}: niter {a["niter"]} but {a["pre_it"]} pre_iteration callbacks')
            if typ == 'restart':
                r.check(any(bool(v) == a['restart'] for k, v in lst), 'restart-record-value', f'{tag}: restart records {[(k.num_restarts, v) for k, v in lst]} vs attempt restart={a["restart"]}')
            if typ == 'dt':
                r.check(any(v == a['dt'] for k, v in lst), 'dt-record-value', f'{tag}: dt records {[v for k, v in lst]} vs attempt dt {a["dt"]!r}')
    # ---- (3) work counters: logged == counted calls inside the attempt window for that slot's fine problem ; conservation
    slot_att = {}
    for a in acc:
        counted = sum(1 for (s_, li, nm) in calls[a['calls0']:a['calls1']] if s_ == a['slot'] and li == 0 and nm == 'eval_f')
        recs = [(k, v) for k, v in stats.items() if k.type == 'work_rhs' and k.process == a['slot'] and k.time == a['end'] and k.iter == a['niter']]
        ok = any(v == counted for k, v in recs)
        r.check(ok, 'work-equals-calls', f'{tag}: logged work_rhs {[v for k, v in recs]} for slot {a["slot"]} attempt ending {a["end"]!r}; {counted} eval_f calls were made by that step\'s fine problem between pre_step and post_step')
        slot_att.setdefault(a['slot'], []).append(counted)
    for si, S in enumerate(ctrl.MS):
        P_ = S.levels[0].prob
        if 'rhs' in P_.work_counters:
            total = P_.work_counters['rhs'].niter - counters0[si].get('rhs', 0)
            observed = sum(1 for (s_, li, nm) in calls if s_ == S.status.slot and li == 0 and nm == 'eval_f')
            r.check(total == observed, 'counter-conservation', f'{tag}: work counter of slot {si} advanced by {total}, {observed} eval_f calls observed')
    # ---- (5) recomputed=False leaves exactly the accepted steps
    for typ, which in [p_ for p_ in post_step_types if p_[0] != 'k']:
        got = get_sorted(stats, type=typ, recomputed=False, sortby='time')
        exp_times = sorted(a[which] for a in acc)
        got_times = [t for t, _ in got]
        if got_times != exp_times:
            # known mechanism: a record of an abandoned attempt survives because its key time coincides bit-exactly with the start/end
            # time of an accepted step (the '_recomputed' marker at that time was overwritten by the accepted step)
            extra_t = list(got_times)
            for t in exp_times:
                if t in extra_t:
                    extra_t.remove(t)
            missing = [t for t in exp_times if got_times.count(t) < exp_times.count(t)]
            acc_marks = {a['start'] for a in acc} | {a['end'] for a in acc}
            rej_marks = {a['start'] for a in rej} | {a['end'] for a in rej}
            mech = None
            if (extra_t or missing) and all((t in rej_marks) and (t in acc_marks) for t in extra_t + missing):
                mech = 'stale-attempt-record-survives-when-its-time-coincides-with-an-accepted-step'
            r.check(False, 'recomputed-false-is-accepted-steps', f'{tag}: get_sorted(type={typ!r}, recomputed=False) returns times {got_times}, accepted steps have {which} times {exp_times}', mech=mech)
        else:
            r.check(True, 'recomputed-false-is-accepted-steps', '')
            if typ == 'niter':
                r.check([v for _, v in got] == [a['niter'] for a in sorted(acc, key=lambda a: a['start'])], 'recomputed-false-values', f'{tag}: niter of accepted steps {[a["niter"] for a in acc]} vs filtered {[v for _, v in got]}')
    # ---- (4)/(6) filter and sort helpers on the real dictionary
    check_helpers(r, tag, stats, rng)
    if len(rej) > 0:
        check_gather(r, tag, stats, rng)
    r.nontrivial = len(acc) >= 1
    r.count('attempts', len(att))
    r.count('rejected_attempts', len(rej))
    r.observe('restarted', len(rej) > 0)
    r.observe('procs_levels', f'{procs}x{nlev}')
    r.sample = dict(case={k: v for k, v in case.items() if not k.startswith('_')}, attempts=len(att), rejected=len(rej), types=sorted(get_list_of_types(stats)))


def check_gather(r, tag, stats, rng):
    """filter_stats(..., comm=...) on per-rank dictionaries (records split by the process that wrote them, as controller_MPI
    produces them) must return on every rank what the serial call returns on the merged dictionary; the collective is
    provided by the simulated mpi4py of C08 (one thread per rank)"""
    import os
    import sys

    sim = os.path.join(os.path.dirname(os.path.dirname(os.path.abspath(__file__))), 'simmpi')
    if sim not in sys.path:
        sys.path.insert(0, sim)
    from mpi4py import MPI
    from pySDC.helpers.stats_helper import filter_stats, get_list_of_types

    procs = sorted({k.process for k in stats if k.process is not None and k.process >= 0})
    if len(procs) < 2:
        return
    local = {p: {k: v for k, v in stats.items() if k.process == p or (k.process not in procs and p == procs[0])} for p in procs}
    types = [t for t in get_list_of_types(stats) if t != '_recomputed']
    sels = [dict(type=types[int(rng.integers(0, len(types)))], recomputed=False) for _ in range(3)] + [dict(type=types[int(rng.integers(0, len(types)))]), dict(recomputed=False, level=0)]
    for sel in sels:
        try:
            want = set(filter_stats(stats, **sel).keys())
        except TypeError:
            continue

        def fn(rank, sel=sel):
            return set(filter_stats(local[procs[rank]], comm=MPI.COMM_WORLD, **sel).keys())

        res, err, w = MPI.launch(len(procs), fn, seed=int(rng.integers(0, 2**31)), policy='random')
        if any(e is not None for e in err):
            r.check(False, 'gathered-filter-equals-serial-filter', f'{tag}: filter_stats({sel}, comm=...) raised on a rank: {[repr(e)[:120] for e in err if e is not None][:2]}')
            continue
        for rank, got in enumerate(res):
            r.check(got == want, 'gathered-filter-equals-serial-filter', f'{tag}: filter_stats({sel}, comm=...) on rank {rank} of {len(procs)} keeps {len(got)} records, the serial call on the merged dictionary keeps {len(want)}; only in one: {sorted(map(str, got ^ want))[:2]}')
        r.count('gathered_filters')


def check_helpers(r, tag, stats, rng):
    from pySDC.helpers.stats_helper import filter_stats, get_list_of_types, get_sorted, sort_stats

    keys = list(stats.keys())
    if not keys:
        return
    # dropping recomputed values must not depend on which other keys are filtered: the multi-type result is the union of the
    # per-type results (the per-type results are judged against the accepted steps by the callers)
    types = [t for t in get_list_of_types(stats) if t != '_recomputed']
    procs = sorted({k.process for k in keys if k.process is not None})
    # the dictionary returned by run() is the record of the run: no query may add, drop or replace entries of it
    before = dict(stats)

    def untouched(what):
        same = len(stats) == len(before) and all(k in stats and stats[k] is v for k, v in before.items())
        r.check(same, 'query-leaves-statistics-unchanged', f'{tag}: {what} changed the statistics it was asked about: {len(before)} entries before, {len(stats)} after')
        if not same:
            # restore, so that the remaining relations are judged on the record of the run
            stats.clear()
            stats.update(before)

    for sel in [dict()] + [dict(process=p_) for p_ in procs[:3]] + [dict(level=0)]:
        try:
            multi = {k for k in filter_stats(stats, recomputed=False, **sel).keys() if k.type != '_recomputed'}
            untouched(f'filter_stats(recomputed=False, {sel})')
            if not sel and all(k.time is not None for k in keys):
                get_sorted(stats, recomputed=False, sortby='time')
                untouched('get_sorted(recomputed=False)')
                filter_stats(stats, recomputed=True)
                untouched('filter_stats(recomputed=True)')
        except TypeError:
            continue  # records without a time cannot take part in the time-based bookkeeping
        union = set()
        for t in types:
            union |= set(filter_stats(stats, type=t, recomputed=False, **sel).keys())
        r.check(multi == union, 'recomputed-filter-independent-of-type-filter', f'{tag}: filter_stats(recomputed=False, {sel}) keeps {len(multi)} records, the union of the per-type filters keeps {len(union)}; only in one of them: {sorted(map(str, multi ^ union))[:3]}')
    fields = ['process', 'time', 'level', 'iter', 'sweep', 'type', 'num_restarts']
    for _ in range(6):
        k0 = keys[int(rng.integers(0, len(keys)))]
        sel = {f: getattr(k0, f) for f in fields if rng.random() < 0.35}
        got = filter_stats(stats, **sel)
        exp = {k: v for k, v in stats.items() if all(getattr(k, f) == val for f, val in sel.items() if val is not None)}
        r.check(set(got.keys()) == set(exp.keys()) and all(got[k] is stats[k] for k in got), 'filter-is-set-comprehension', f'{tag}: filter_stats({sel}) returned {len(got)} entries, the comprehension gives {len(exp)}')
        for sortby in ('time', 'iter', 'num_restarts'):
            if any(getattr(k, sortby) is None for k in got):
                continue  # records without that key (e.g. run-level timings) cannot be ordered against numbers
            s = sort_stats(got, sortby=sortby)
            ks = [x[0] for x in s]
            r.check(all(a <= b for a, b in zip(ks[:-1], ks[1:])), 'sort-ascending', f'{tag}: sort_stats by {sortby} is not ascending')
            r.check(sorted(map(repr, (getattr(k, sortby) for k in got))) == sorted(map(repr, ks)) and len(s) == len(got), 'sort-is-permutation', f'{tag}: sort_stats by {sortby} is not a permutation of the input')
        if any(k.time is None for k in exp):
            continue
        s2 = get_sorted(stats, sortby='time', **sel)
        r.check(len(s2) == len(exp), 'get-sorted-is-filter-then-sort', f'{tag}: get_sorted({sel}) has {len(s2)} entries, expected {len(exp)}')
    untouched('a sequence of filter_stats / sort_stats / get_sorted queries')


def run_adaptive(case, r):
    from pySDC.helpers.stats_helper import get_sorted
    from pySDC.implementations.controller_classes.controller_nonMPI import controller_nonMPI
    from pySDC.implementations.convergence_controller_classes.adaptivity import Adaptivity
    from pySDC.implementations.hooks.log_solution import LogSolution
    from pySDC.implementations.hooks.log_work import LogWork
    from pySDC.implementations.problem_classes.Van_der_Pol_implicit import vanderpol
    from pySDC.implementations.sweeper_classes.generic_implicit import generic_implicit

    from vf.mon.tracehook import find_hook, make_trace_hook

    r.key = f"adaptive/{case['procs']}/{case['e_tol']:.2e}/{case['dt']:.2e}"
    tag = r.key
    H = make_trace_hook()
    desc = dict(problem_class=vanderpol, problem_params=dict(mu=3.0, newton_tol=1e-10, newton_maxiter=100, u0=np.array([2.0, 0.0])), sweeper_class=generic_implicit,
                sweeper_params=dict(num_nodes=3, quad_type='RADAU-RIGHT', QI='LU'), level_params=dict(dt=case['dt'], restol=-1), step_params=dict(maxiter=3),
                convergence_controllers={Adaptivity: dict(e_tol=case['e_tol'])})
    from pySDC.implementations.hooks.log_embedded_error_estimate import LogEmbeddedErrorEstimate, LogEmbeddedErrorEstimatePostIter
    from pySDC.implementations.hooks.log_restarts import LogRestarts
    from pySDC.implementations.hooks.log_step_size import LogStepSize

    # hooks requested by the user in different orders / as subclasses of hooks that dependencies add later
    variants = [[LogSolution, LogWork, H], [LogEmbeddedErrorEstimatePostIter, LogSolution, H], [LogEmbeddedErrorEstimate, LogEmbeddedErrorEstimatePostIter, LogSolution, LogRestarts, LogStepSize, H], [H, LogSolution, LogSolution]]
    all_hooks = None
    if case['seed'] % 3 == 0:
        # every logging hook shipped, on a problem with a closed-form solution (the error hooks evaluate u_exact)
        from pySDC.implementations.hooks.log_errors import LogGlobalErrorPostIter, LogGlobalErrorPostRun, LogGlobalErrorPostStep, LogLocalErrorPostIter, LogLocalErrorPostStep
        from pySDC.implementations.hooks.log_timings import CPUTimings
        from pySDC.implementations.hooks.log_work import LogSDCIterations
        from pySDC.implementations.problem_classes.TestEquation_0D import testequation0d

        all_hooks = [LogSolution, LogWork, LogSDCIterations, LogStepSize, LogRestarts, LogEmbeddedErrorEstimate, LogEmbeddedErrorEstimatePostIter, LogGlobalErrorPostStep,
                     LogGlobalErrorPostIter, LogGlobalErrorPostRun, LogLocalErrorPostStep, LogLocalErrorPostIter, CPUTimings, H]
        variants = [all_hooks]
        desc.update(problem_class=testequation0d, problem_params=dict(lambdas=np.array([-4.0, -1.0 + 6j]), u0=1.0))
    user_hooks = variants[case['seed'] % len(variants)]
    ctrl = controller_nonMPI(case['procs'], dict(logger_level=50, dump_setup=False, hook_class=user_hooks, mssdc_jac=False), desc)
    hook = find_hook(ctrl, H)
    P = ctrl.MS[0].levels[0].prob
    u0 = P.u_exact(0.0)
    uend, stats = ctrl.run(u0, 0.0, 0.6)
    r.observe('user_hooks', '+'.join(h.__name__ for h in user_hooks))
    if LogEmbeddedErrorEstimatePostIter in user_hooks:
        n_pi = sum(1 for k in stats if k.type == 'error_embedded_estimate_post_iteration')
        r.check(n_pi >= 1, 'requested-hook-records-present', f'{tag}: LogEmbeddedErrorEstimatePostIter was requested but no error_embedded_estimate_post_iteration record exists')
    att = attempts_from_trace(hook.events)
    acc = [a for a in att if not a['restart']]
    rej = [a for a in att if a['restart']]
    for typ, which in [('niter', 'start'), ('u', 'end'), ('error_embedded_estimate', 'end'), ('dt', 'start'), ('restart', 'start')]:
        raw = {k: v for k, v in stats.items() if k.type == typ}
        r.check(len(acc) <= len(raw) <= len(att), 'one-record-per-attempt', f'{tag}: {len(raw)} raw {typ!r} records for {len(att)} step attempts ({len(acc)} accepted)')
        got = get_sorted(stats, type=typ, recomputed=False, sortby='time')
        exp_times = sorted(a[which] for a in acc)
        got_times = [t for t, _ in got]
        if got_times != exp_times:
            extra_t = list(got_times)
            for t in exp_times:
                if t in extra_t:
                    extra_t.remove(t)
            missing = [t for t in exp_times if got_times.count(t) < exp_times.count(t)]
            acc_marks = {a['start'] for a in acc} | {a['end'] for a in acc}
            rej_marks = {a['start'] for a in rej} | {a['end'] for a in rej}
            mech = 'stale-attempt-record-survives-when-its-time-coincides-with-an-accepted-step' if ((extra_t or missing) and all((t in rej_marks) and (t in acc_marks) for t in extra_t + missing)) else None
            r.check(False, 'recomputed-false-is-accepted-steps', f'{tag}: get_sorted(type={typ!r}, recomputed=False) returns times {got_times[:8]}..., accepted steps have {which} times {exp_times[:8]}...', mech=mech)
        else:
            r.check(True, 'recomputed-false-is-accepted-steps', '')
    if all_hooks is not None and acc:
        # every record of every shipped hook is keyed by the start or end time of a step that was actually attempted, and the
        # run-level error records by the end time of the last accepted step
        marks = {a['start'] for a in att} | {a['end'] for a in att}
        t_final = max(a['end'] for a in acc)
        seen_types = set()
        for k in stats:
            if k.time is None or k.type == '_recomputed' or (k.type.startswith('timing_') and k.time == -1):
                continue  # run-level timings carry the placeholder time -1
            seen_types.add(k.type)
            r.check(k.time in marks, 'record-keyed-by-a-step-time', f'{tag}: record {k.type!r} (process {k.process}, iter {k.iter}) is keyed by time {k.time!r}, which is neither the start nor the end of any step attempt of the run')
            if k.type.endswith('post_run') and k.process == max(a['slot'] for a in acc if a['end'] == t_final):
                r.check(k.time == t_final, 'run-level-record-keyed-by-final-time', f'{tag}: {k.type!r} is keyed by {k.time!r}, the run ended at {t_final!r}')
        for typ in ('e_global_post_run', 'e_global_rel_post_run'):
            recs = [(k.process, k.time, v) for k, v in stats.items() if k.type == typ]
            r.check(len(recs) == 1, 'one-run-level-record', f'{tag}: {len(recs)} {typ!r} records for one run: {recs}', mech='post-run-error-logged-by-a-step-idle-in-the-final-block' if len(recs) > 1 and len({t for _, t, _ in recs}) == 1 else None)
            if typ == 'e_global_post_run' and len(recs) >= 1:
                want = float(abs(uend - P.u_exact(t_final)))
                own = [v for p_, t_, v in recs if p_ == max(a['slot'] for a in acc if a['end'] == t_final)]
                r.check(bool(own) and abs(own[0] - want) <= 1e-13 * max(1.0, want), 'run-level-record-value', f'{tag}: e_global_post_run = {own} but |uend - u_exact({t_final!r})| = {want!r}')
        for need in ('e_global_post_run', 'e_global_post_step', 'e_local_post_step', 'e_global_post_iteration', 'u', 'dt', 'niter', 'work_rhs', 'k'):
            r.check(need in seen_types, 'requested-hook-records-present', f'{tag}: no {need!r} record although the hook was requested (types: {sorted(seen_types)})')
        for typ, which in [('e_global_post_step', 'end'), ('e_local_post_step', 'end')]:
            got_times = [t for t, _ in get_sorted(stats, type=typ, recomputed=False, sortby='time')]
            exp_times = sorted(a[which] for a in acc)
            if got_times != exp_times:
                acc_marks = {a['start'] for a in acc} | {a['end'] for a in acc}
                rej_marks = {a['start'] for a in rej} | {a['end'] for a in rej}
                diff = [t for t in got_times if t not in exp_times] + [t for t in exp_times if got_times.count(t) != exp_times.count(t)]
                mech = 'stale-attempt-record-survives-when-its-time-coincides-with-an-accepted-step' if diff and all((t in rej_marks) and (t in acc_marks) for t in diff) else None
                r.check(False, 'recomputed-false-is-accepted-steps', f'{tag}: get_sorted(type={typ!r}, recomputed=False) returns times {got_times[:8]}..., accepted steps end at {exp_times[:8]}...', mech=mech)
        r.count('all_hooks_runs')
    check_helpers(r, tag, stats, np.random.default_rng(case['seed']))
    if len(rej) > 0:
        check_gather(r, tag, stats, np.random.default_rng(case['seed'] + 1))
    r.nontrivial = len(acc) >= 1
    r.count('attempts', len(att))
    r.count('rejected_attempts', len(rej))
    r.observe('restarted', len(rej) > 0)
    r.sample = dict(case={k: v for k, v in case.items() if not k.startswith('_')}, attempts=len(att), rejected=len(rej))


def run_synthetic(case, r):
    from pySDC.core.hooks import Entry
    from pySDC.helpers.stats_helper import filter_stats, get_list_of_types, get_sorted, sort_stats

    rng = np.random.default_rng(case['seed'])
    r.key = f"synthetic/{case['n']}/{case['seed']}"
    stats = {}
    types = ['niter', 'u', 'dt', 'restart', 'residual_post_step', 'work_rhs']
    times = [float(x) for x in np.round(rng.uniform(0, 2, 8), 2)]
    for i in range(case['n']):
        k = Entry(process=int(rng.integers(-1, 4)), process_sweeper=int(rng.integers(-1, 2)), time=times[int(rng.integers(0, len(times)))], level=int(rng.integers(-1, 3)), iter=int(rng.integers(-1, 5)),
                  sweep=int(rng.integers(-1, 3)), type=types[int(rng.integers(0, len(types)))], num_restarts=0)
        stats[k] = float(rng.standard_normal())
    check_helpers(r, r.key, stats, rng)
    tl = get_list_of_types(stats)
    r.check(sorted(tl) == sorted({k.type for k in stats}) and len(tl) == len(set(tl)), 'list-of-types', f'{r.key}: get_list_of_types {tl}')
    # without restarts in the dictionary recomputed=False must not remove anything
    for typ in types:
        a = filter_stats(stats, type=typ)
        b = filter_stats(stats, type=typ, recomputed=False)
        r.check(set(a) == set(b), 'recomputed-false-noop-without-restarts', f'{r.key}: recomputed=False removed {len(a) - len(b)} {typ!r} entries although nothing was restarted')
    e = filter_stats(stats, type='nonexistent')
    r.check(e == {}, 'filter-empty', f'{r.key}: filtering for an absent type returns {len(e)} entries')
    r.nontrivial = case['n'] > 0
    r.sample = dict(case={k: v for k, v in case.items() if not k.startswith('_')})


def run_case(case):
    r = Result(case)
    dict(history=run_history, adaptive=run_adaptive, synthetic=run_synthetic)[case['kind']](case, r)
    r.count('kind:' + case['kind'])
    return r


def finalize(agg):
    out = []
    c = agg['counters']
    for k in ('oracle:one-record-per-attempt', 'oracle:record-keyed-by-true-time', 'oracle:work-equals-calls', 'oracle:counter-conservation', 'oracle:recomputed-false-is-accepted-steps',
              'oracle:filter-is-set-comprehension', 'oracle:sort-ascending', 'oracle:niter-equals-iteration-callbacks', 'oracle:query-leaves-statistics-unchanged'):
        if c.get(k, 0) == 0:
            out.append(f'monitor {k} never evaluated')
    if c.get('rejected_attempts', 0) == 0:
        out.append('no restarted attempt was observed')
    for k, why in (('all_hooks_runs', 'no run with every shipped hook was judged'), ('oracle:recomputed-filter-independent-of-type-filter', 'multi-key recomputed filter never compared'), ('oracle:record-keyed-by-a-step-time', 'key-time coherence never evaluated'), ('oracle:one-run-level-record', 'run-level records never counted'), ('gathered_filters', 'the comm= path of filter_stats was never exercised')):
        if c.get(k, 0) == 0:
            out.append(why)
    return out
