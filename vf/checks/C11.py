"""C11 — transfer operators in time and space are exact on what they promise.

Monitors read Pcoll/Rcoll of BaseTransfer objects created by real Step hierarchies (built in sequences inside one
process), Pspace/Rspace of mesh_to_mesh and the results of restrict()/prolong() of every transfer class on generated
data; oracles: extended-precision polynomial reproduction, exact Lagrange weights through the p nearest points of the
extended coarse grid, analytic trigonometric interpolation.
"""

from fractions import Fraction as Fr

import numpy as np

from vf.core import Result

PROPERTY = 'C11'
LEVEL = 'exploration'
TECHNIQUE = 'runtime contracts on transfer matrices/results: extended-precision polynomial and exact nearest-neighbour Lagrange oracles'
RULE = (
    'kind=coll: a sequence of two-level Step hierarchies (node family, quadrature type, fine/coarse counts 1..9) built one after the other in one process; '
    'kind=space: one mesh_to_mesh operator (periodic 2^k / Dirichlet 2^k-1 grids, k=2..7, orders 2-8, nested shortcut on/off, dims 1-3, restriction order) '
    'with restrict/prolong on mesh, imex_mesh, comp2_mesh data; kind=fft / fft2d / nocoarse / particles: the other transfer classes; '
    'non-trivial = operator built and its row/reproduction oracle evaluated; distinct by parameters'
)
ASSUMPTIONS = [
    'node-transfer exactness judged in mpmath (50 digits) on the float nodes delivered by the level, tolerance 1e-11*Lebesgue-like row sum',
    'space oracle: p nearest points of the extended coarse grid (periodic images / the two boundary points with value 0); refinement ratio 2, so ties only occur at coincident points where every tie-break gives the identity row',
    'FFT transfer: real data with modes strictly below the coarse Nyquist frequency',
]
EXHAUSTIVE = {'quick': False, 'thorough': False}
NT = ['LEGENDRE', 'EQUID', 'CHEBY-1', 'CHEBY-2', 'CHEBY-3', 'CHEBY-4']
QT = ['RADAU-RIGHT', 'LOBATTO', 'GAUSS', 'RADAU-LEFT']


def cases(tier, seed):
    rng = np.random.default_rng(seed + 1111)
    cs = []
    # coll sequences
    nseq = 30 if tier == 'quick' else 3000
    for i in range(nseq):
        seq = []
        qt = QT[int(rng.integers(0, 4))]
        cnt = [int(rng.integers(2, 10)), int(rng.integers(1, 10))]
        for j in range(6):
            if rng.random() < 0.5:  # keep quad type and counts, change only the node family: hostile for caches keyed too coarsely
                pass
            else:
                qt = QT[int(rng.integers(0, 4))]
                cnt = [int(rng.integers(1, 10)), int(rng.integers(1, 10))]
            mf, mc = max(cnt), min(cnt)
            if qt in ('LOBATTO', 'RADAU-LEFT'):
                mf, mc = max(mf, 2), max(mc, 2)
            seq.append(dict(nt=NT[int(rng.integers(0, 6))], qt=qt, Mf=mf, Mc=mc))
        cs.append(dict(kind='coll', seq=seq, _cost=6))
    # space operators
    sp = []
    for periodic in (True, False):
        for k in range(2, 8):
            nf = 2**k if periodic else 2**k - 1
            nc = 2 ** (k - 1) if periodic else 2 ** (k - 1) - 1
            if nc < 2:
                continue  # the finite-difference workload problem itself needs >= 2 points
            for iorder in (2, 4, 6, 8):
                for nested in (True, False):
                    for rorder in ((2, iorder, 0) if nested else (2, iorder)):  # order 0 = injection, only offered by the nested shortcut
                        sp.append(dict(kind='space', periodic=periodic, nf=nf, nc=nc, iorder=iorder, rorder=rorder, nested=nested, dim=1, _cost=nf))
    nd = []
    for periodic in (True, False):
        for dim in (2, 3):
            for k in ((2, 3) if dim == 3 else (2, 3, 4)):
                nf = 2**k if periodic else 2**k - 1
                nc = 2 ** (k - 1) if periodic else 2 ** (k - 1) - 1
                if nc < 2:
                    continue
                for iorder in (2, 4):
                    nd.append(dict(kind='space', periodic=periodic, nf=nf, nc=nc, iorder=iorder, rorder=2, nested=bool(rng.random() < 0.5), dim=dim, _cost=nf**dim))
    # sizes that are not powers of two (coarsening by 2 only needs nf = 2 nc resp. 2 nc + 1)
    gen = []
    for periodic in (True, False):
        for nc in (3, 5, 6, 7, 9, 10, 11, 12, 13, 14, 17, 20, 24, 25, 31, 33, 40, 48, 50):
            nf = 2 * nc if periodic else 2 * nc + 1
            for iorder in (2, 4, 6, 8):
                for nested in (True, False):
                    for rorder in ((2, iorder, 0) if nested else (2, iorder)):
                        gen.append(dict(kind='space', periodic=periodic, nf=nf, nc=nc, iorder=iorder, rorder=rorder, nested=nested, dim=1, _cost=nf))
    # grids that are not nested at all (Dirichlet, nf = 2 nc): only the general construction (equidist_nested=False) applies;
    # every pairing of interpolation and restriction order
    keep = []
    for nc in (4, 5, 8, 12, 16, 21):
        for iorder in (2, 4, 6):
            for rorder in (2, 4, 6):
                keep.append(dict(kind='space', periodic=False, nf=2 * nc, nc=nc, iorder=iorder, rorder=rorder, nested=False, dim=1, _cost=2 * nc))
    if tier == 'quick':
        gen = [gen[i] for i in rng.choice(len(gen), 40, replace=False)]
        keep = [c for c in keep if c['nc'] in (5, 8)]
    sp += gen
    if tier == 'quick':
        sp = [sp[i] for i in rng.choice(len(sp), 120, replace=False)]
        nd = [nd[i] for i in rng.choice(len(nd), 10, replace=False)]
    sp += keep
    cs += sp + nd
    for i in range(24 if tier == 'quick' else 1500):
        dim = int(rng.choice([2, 2, 3]))
        periodic = False  # the periodic branch of interpolation_matrix_1d assumes the unit period and n-D problems share one dx, so rectangular periodic grids cannot be described
        ncs = [int(rng.integers(3, 9 if dim == 3 else 13)) for _ in range(dim)]
        io = int(rng.choice([2, 4, 6]))
        cs.append(dict(kind='rect', periodic=periodic, ncs=ncs, iorder=io, rorder=int(rng.choice([2, io])), nested=bool(rng.random() < 0.5), seed=int(rng.integers(0, 2**31)), _cost=float(np.prod(ncs)) * 2))
    for k in range(2, 8):
        for ratio in (2, 4):
            if 2**k // ratio >= 2:
                cs.append(dict(kind='fft', nf=2**k, nc=2**k // ratio, seed=int(rng.integers(0, 2**31)), _cost=1))
    for k in (2, 3, 4):
        cs.append(dict(kind='fft2d', nf=2**k, nc=2 ** (k - 1), seed=int(rng.integers(0, 2**31)), _cost=2))
    for i in range(6 if tier == 'quick' else 400):
        for _ in range(2):
            dim_ = int(rng.integers(1, 3))
            k_ = int(rng.integers(3, 6 if dim_ == 1 else 5))
            cs.append(dict(kind='ncomp', nf=2**k_, nc=2 ** (k_ - 1), dim=dim_, ncomp=int(rng.integers(2, 4)), last=bool(rng.random() < 0.5), iorder=int(rng.choice([2, 4])), rorder=2,
                           seed=int(rng.integers(0, 2**31)), _cost=4))
        cs.append(dict(kind='nocoarse', n=int(rng.integers(1, 9)), seed=int(rng.integers(0, 2**31)), _cost=1))
        cs.append(dict(kind='particles', n=int(rng.integers(1, 5)), seed=int(rng.integers(0, 2**31)), _cost=1))
    return cs


# ------------------------------------------------------------------ node transfer
def run_coll(case, r):
    import mpmath as mp

    from pySDC.core.step import Step
    from pySDC.implementations.problem_classes.TestEquation_0D import testequation0d
    from pySDC.implementations.sweeper_classes.generic_implicit import generic_implicit
    from pySDC.implementations.transfer_classes.TransferMesh_NoCoarse import mesh_to_mesh as nocoarse

    mp.mp.dps = 50
    r.key = 'coll/' + '|'.join(f"{c['nt']}/{c['qt']}/{c['Mf']}/{c['Mc']}" for c in case['seq'])
    for c in case['seq']:
        tag = f"{c['nt']}/{c['qt']}/{c['Mf']}->{c['Mc']}"
        desc = dict(problem_class=testequation0d, problem_params=dict(lambdas=np.array([-1.0]), u0=1.0), sweeper_class=generic_implicit,
                    sweeper_params=dict(num_nodes=[c['Mf'], c['Mc']], quad_type=c['qt'], node_type=c['nt']), level_params=dict(dt=0.1),
                    space_transfer_class=nocoarse, space_transfer_params={})
        try:
            S = Step(desc)
        except Exception as e:  # noqa
            r.count('coll_rejected')
            r.observe('coll_rejected', f'{tag}:{type(e).__name__}')
            continue
        if len(S.levels) < 2:
            r.count('coll_single_level')  # equal node counts collapse? (they do not: two levels with equal counts are legal)
        F, G = S.levels[0], S.levels[1]
        S.get_transfer_class(F, G) if hasattr(S, 'get_transfer_class') else None
        bt = S.base_transfer if S.base_transfer is not None else None
        if bt is None or bt.fine is not F:
            # Step keeps one base_transfer per level pair in a private dict; reach it through the public transfer() path
            bt = _find_base_transfer(S, F, G)
        P = np.asarray(bt.Pcoll, dtype=float)
        R = np.asarray(bt.Rcoll, dtype=float)
        xf = [mp.mpf(float(x)) for x in F.sweep.coll.nodes]
        xc = [mp.mpf(float(x)) for x in G.sweep.coll.nodes]
        nf, nc = len(xf), len(xc)
        r.check(P.shape == (nf, nc) and R.shape == (nc, nf), 'coll-shapes', f'{tag}: Pcoll {P.shape} Rcoll {R.shape}')
        if P.shape != (nf, nc) or R.shape != (nc, nf):
            continue
        lebP = float(np.max(np.sum(np.abs(P), axis=1)))
        lebR = float(np.max(np.sum(np.abs(R), axis=1)))
        for deg in range(nc):
            for i in range(nf):
                got = mp.fsum(mp.mpf(float(P[i, j])) * xc[j] ** deg for j in range(nc))
                err = float(abs(got - xf[i] ** deg))
                r.check(err <= 1e-11 * max(lebP, 1.0) * (deg + 1), 'Pcoll-polynomial-exact', f'{tag}: Pcoll row {i} does not reproduce x^{deg} (error {err:.3e})')
        for deg in range(nf):
            for i in range(nc):
                got = mp.fsum(mp.mpf(float(R[i, j])) * xf[j] ** deg for j in range(nf))
                err = float(abs(got - xc[i] ** deg))
                r.check(err <= 1e-11 * max(lebR, 1.0) * (deg + 1), 'Rcoll-polynomial-exact', f'{tag}: Rcoll row {i} does not reproduce x^{deg} (error {err:.3e})')
        r.check(float(np.max(np.abs(P.sum(axis=1) - 1))) <= 1e-12 * max(lebP, 1), 'Pcoll-rows-sum-one', f'{tag}: Pcoll rows do not sum to one')
        RP = R @ P
        r.check(float(np.max(np.abs(RP - np.eye(nc)))) <= 1e-10 * max(lebP * lebR, 1), 'Rcoll-Pcoll-identity', f'{tag}: Rcoll*Pcoll != I ({np.max(np.abs(RP - np.eye(nc))):.3e})')
        r.nontrivial = True
        r.observe('coll_rule', f"{c['nt']}/{c['qt']}")
        r.count('coll_pairs')
    r.sample = dict(kind='coll', seq=case['seq'][:3])


def _find_base_transfer(S, F, G):
    d = getattr(S, '_Step__transfer_dict')
    fn = d[(F, G)]
    return fn.__self__


# ------------------------------------------------------------------ space transfer
def lagrange_weights(xs, x):
    """exact Lagrange basis values at x for points xs (Fractions)"""
    out = []
    for j, xj in enumerate(xs):
        num, den = Fr(1), Fr(1)
        for m, xm in enumerate(xs):
            if m != j:
                num *= x - xm
                den *= xj - xm
        out.append(num / den)
    return out


def expected_P_row(i, nf, nc, p, periodic):
    """row of the interpolation matrix for fine point i: Lagrange weights through the p nearest points of the extended coarse grid"""
    row = [Fr(0)] * nc
    if periodic:
        x = Fr(i, nf)
        cand = [(Fr(j, nc) + s, j) for s in (-1, 0, 1) for j in range(nc)]
    else:
        x = Fr(i + 1, nf + 1)
        cand = [(Fr(j + 1, nc + 1), j) for j in range(nc)] + [(Fr(0), None), (Fr(1), None)]
    cand.sort(key=lambda c: (abs(c[0] - x), c[0]))
    near = cand[:p]
    # ties at the cut only matter if the p-th and (p+1)-th distances agree; then x coincides with a node iff distance 0 is present
    tie = len(cand) > p and abs(cand[p - 1][0] - x) == abs(cand[p][0] - x)
    w = lagrange_weights([c[0] for c in near], x)
    for (xc, j), wj in zip(near, w):
        if j is not None:
            row[j] += wj
    return row, tie


def make_probs(case):
    periodic, nf, nc, dim = case['periodic'], case['nf'], case['nc'], case['dim']
    from pySDC.implementations.problem_classes.HeatEquation_ND_FD import heatNd_unforced

    bc = 'periodic' if periodic else 'dirichlet-zero'
    nvf = nf if dim == 1 else (nf,) * dim
    nvc = nc if dim == 1 else (nc,) * dim
    freq = (2 if dim == 1 else (2,) * dim)
    def pow2(n):
        m = n if periodic else n + 1
        return m & (m - 1) == 0

    if dim == 1 and not (pow2(nf) and pow2(nc)):
        # the shipped finite-difference problems insist on 2^p (-1) points; the transfer class itself only reads nvars, dx and
        # init, so general sizes are driven with a plain grid description
        from types import SimpleNamespace

        mk = lambda n: SimpleNamespace(nvars=n, dx=(1.0 / n if periodic else 1.0 / (n + 1)), init=(n, None, np.dtype('float64')))  # noqa: E731
        return mk(nf), mk(nc)
    Pf = heatNd_unforced(nvars=nvf, nu=0.1, freq=freq, bc=bc)
    Pc = heatNd_unforced(nvars=nvc, nu=0.1, freq=freq, bc=bc)
    return Pf, Pc


def run_space(case, r):
    from pySDC.implementations.datatype_classes.mesh import imex_mesh, mesh
    from pySDC.implementations.transfer_classes.TransferMesh import mesh_to_mesh

    periodic, nf, nc, dim, p, ro = case['periodic'], case['nf'], case['nc'], case['dim'], case['iorder'], case['rorder']
    tag = f"space/{'per' if periodic else 'dir'}/{nf}->{nc}/i{p}/r{ro}/nested{case['nested']}/dim{dim}"
    r.key = tag
    Pf, Pc = make_probs(case)
    if (not periodic and (p > nc + 2)) or (periodic and p > nc):
        # more neighbours requested than extended coarse points exist: outside the quantifier (orders must fit the grid)
        r.count('space_order_exceeds_grid')
        r.check(True, 'noop', '')
        return
    try:
        T = mesh_to_mesh(Pf, Pc, dict(iorder=p, rorder=ro, periodic=periodic, equidist_nested=case['nested']))
    except Exception as e:  # noqa
        r.check(False, 'space-constructs', f'{tag}: {type(e).__name__}: {e}')
        return
    P = T.Pspace.toarray()
    R = T.Rspace.toarray()
    # 1-D reference rows
    exp = np.zeros((nf, nc))
    ties = 0
    for i in range(nf):
        row, tie = expected_P_row(i, nf, nc, p, periodic)
        exp[i] = [float(x) for x in row]
        ties += tie
    E = exp
    for _ in range(dim - 1):
        E = np.kron(E, exp)
    err = float(np.max(np.abs(P - E)))
    mech = None
    if err > 1e-11 and periodic and p == nc:
        mech = 'periodic-interpolation-order-equals-coarse-size-ignores-images'
    r.check(P.shape == E.shape and err <= 1e-11 * max(1.0, float(np.max(np.abs(E)))), 'Pspace-nearest-lagrange', f'{tag}: Pspace differs from the Lagrange weights through the {p} nearest points of the extended coarse grid by {err:.3e}', mech=mech)
    r.nontrivial = True
    if periodic:
        rs = float(np.max(np.abs(P.sum(axis=1) - 1)))
        r.check(rs <= 1e-12 * max(1.0, float(np.max(np.sum(np.abs(P), axis=1)))), 'constants-preserved', f'{tag}: periodic interpolation does not preserve constants (row sums off by {rs:.3e})')
    # restriction relation
    if ro > 0:
        exp_r = np.zeros((nf, nc))
        if not ((not periodic and (ro > nc + 2)) or (periodic and ro > nc)):
            for i in range(nf):
                exp_r[i] = [float(x) for x in expected_P_row(i, nf, nc, ro, periodic)[0]]
            ER = exp_r
            for _ in range(dim - 1):
                ER = np.kron(ER, exp_r)
            # per dimension factor 0.5
            errR = float(np.max(np.abs(R - (0.5**dim) * ER.T)))
            mechR = 'periodic-interpolation-order-equals-coarse-size-ignores-images' if (errR > 1e-11 and periodic and ro == nc) else None
            r.check(errR <= 1e-11, 'Rspace-is-half-PT', f'{tag}: Rspace differs from 0.5^dim * P(order {ro})^T by {errR:.3e}', mech=mechR)
    if ro == 0:
        inj = np.zeros((nf, nc))
        for j in range(nc):
            inj[2 * j if periodic else 2 * j + 1, j] = 1.0
        EI = inj
        for _ in range(dim - 1):
            EI = np.kron(EI, inj)
        r.check(float(np.max(np.abs(R - EI.T))) <= 1e-14, 'Rspace-injection', f'{tag}: order-0 restriction is not injection')
    # restrict / prolong results: types, components, matrix action
    rng = np.random.default_rng(nf * 100 + p)
    for dt_cls in (mesh, imex_mesh):
        Gd = dt_cls(Pc.init)
        Fd = dt_cls(Pf.init)
        if dt_cls is mesh:
            Gd[:] = rng.standard_normal(np.asarray(Gd).shape)
            Fd[:] = rng.standard_normal(np.asarray(Fd).shape)
            comps_G, comps_F = [np.asarray(Gd)], [np.asarray(Fd)]
        else:
            Gd.impl[:] = rng.standard_normal(np.asarray(Gd.impl).shape)
            Gd.expl[:] = rng.standard_normal(np.asarray(Gd.expl).shape)
            Fd.impl[:] = rng.standard_normal(np.asarray(Fd.impl).shape)
            Fd.expl[:] = rng.standard_normal(np.asarray(Fd.expl).shape)
            comps_G, comps_F = [np.asarray(Gd.impl), np.asarray(Gd.expl)], [np.asarray(Fd.impl), np.asarray(Fd.expl)]
        gb, fb = np.array(np.asarray(Gd), copy=True), np.array(np.asarray(Fd), copy=True)
        up = T.prolong(Gd)
        dn = T.restrict(Fd)
        r.check(type(up) is dt_cls and type(dn) is dt_cls, 'transfer-preserves-type', f'{tag}: {dt_cls.__name__} became {type(up).__name__}/{type(dn).__name__}')
        r.check(np.array_equal(np.asarray(Gd), gb) and np.array_equal(np.asarray(Fd), fb), 'transfer-args-untouched', f'{tag}: restrict/prolong modified its argument')
        ups = [np.asarray(up)] if dt_cls is mesh else [np.asarray(up.impl), np.asarray(up.expl)]
        dns = [np.asarray(dn)] if dt_cls is mesh else [np.asarray(dn.impl), np.asarray(dn.expl)]
        for cg, cu in zip(comps_G, ups):
            e = float(np.max(np.abs(cu.reshape(-1) - P @ cg.reshape(-1))))
            r.check(cu.shape == np.asarray(comps_F[0]).shape and e <= 1e-12 * max(1, float(np.max(np.abs(cg))) * float(np.max(np.sum(np.abs(P), axis=1)))), 'prolong-is-Pspace', f'{tag}: prolong({dt_cls.__name__}) != Pspace*data per component ({e:.3e})')
        for cf, cd in zip(comps_F, dns):
            e = float(np.max(np.abs(cd.reshape(-1) - R @ cf.reshape(-1))))
            r.check(cd.shape == np.asarray(comps_G[0]).shape and e <= 1e-12 * max(1, float(np.max(np.abs(cf))) * float(np.max(np.sum(np.abs(R), axis=1)))), 'restrict-is-Rspace', f'{tag}: restrict({dt_cls.__name__}) != Rspace*data per component ({e:.3e})')
    # Dirichlet: polynomials of degree < p vanishing on the boundary are reproduced (1-D)
    if dim == 1 and not periodic:
        xc = np.array([(j + 1) / (nc + 1) for j in range(nc)])
        xf = np.array([(i + 1) / (nf + 1) for i in range(nf)])
        for deg in range(2, p):
            # x(1-x) q(x), q monomial of degree deg-2
            pc = xc * (1 - xc) * xc ** (deg - 2)
            pf = xf * (1 - xf) * xf ** (deg - 2)
            e = float(np.max(np.abs(P @ pc - pf)))
            r.check(e <= 1e-11 * max(1.0, float(np.max(np.sum(np.abs(P), axis=1)))), 'dirichlet-polynomial-reproduced', f'{tag}: boundary-vanishing polynomial of degree {deg} not reproduced ({e:.3e})')
    r.observe('space', f"{'per' if periodic else 'dir'}/i{p}/nested{case['nested']}/dim{dim}")
    r.sample = dict(case={k: v for k, v in case.items() if not k.startswith('_')}, err=err, ties=ties)


def run_rect(case, r):
    """n-D grids with different point counts per direction: the operator must act direction by direction on C-ordered data"""
    from types import SimpleNamespace

    from pySDC.implementations.datatype_classes.mesh import imex_mesh, mesh
    from pySDC.implementations.transfer_classes.TransferMesh import mesh_to_mesh

    periodic, ncs, p, ro = case['periodic'], case['ncs'], case['iorder'], case['rorder']
    nfs = [2 * n if periodic else 2 * n + 1 for n in ncs]
    dim = len(ncs)
    tag = f"rect/{'per' if periodic else 'dir'}/{nfs}->{ncs}/i{p}/r{ro}/nested{case['nested']}"
    r.key = tag
    if any((not periodic and max(p, ro) > n + 2) or (periodic and max(p, ro) >= n) for n in ncs):
        r.count('space_order_exceeds_grid')
        r.check(True, 'noop', '')
        return
    dxf = 1.0 / 64
    Pf = SimpleNamespace(nvars=tuple(nfs), dx=dxf, init=(tuple(nfs), None, np.dtype('float64')))
    Pc = SimpleNamespace(nvars=tuple(ncs), dx=2 * dxf, init=(tuple(ncs), None, np.dtype('float64')))
    try:
        T = mesh_to_mesh(Pf, Pc, dict(iorder=p, rorder=ro, periodic=periodic, equidist_nested=case['nested']))
    except Exception as e:  # noqa
        r.check(False, 'space-constructs', f'{tag}: {type(e).__name__}: {e}')
        return
    P1, R1 = [], []
    for nf, nc in zip(nfs, ncs):
        P1.append(np.array([[float(x) for x in expected_P_row(i, nf, nc, p, periodic)[0]] for i in range(nf)]))
        R1.append(0.5 * np.array([[float(x) for x in expected_P_row(i, nf, nc, ro, periodic)[0]] for i in range(nf)]).T)

    def apply(mats, data):
        out = data
        for ax, Mx in enumerate(mats):
            out = np.moveaxis(np.tensordot(Mx, out, axes=(1, ax)), 0, ax)
        return out

    rng = np.random.default_rng(case['seed'])
    for dt_cls in (mesh, imex_mesh):
        Gd, Fd = dt_cls(Pc.init), dt_cls(Pf.init)
        if dt_cls is mesh:
            Gd[:] = rng.standard_normal(np.asarray(Gd).shape)
            Fd[:] = rng.standard_normal(np.asarray(Fd).shape)
            cG, cF = [np.asarray(Gd).copy()], [np.asarray(Fd).copy()]
        else:
            for part in (Gd.impl, Gd.expl, Fd.impl, Fd.expl):
                part[:] = rng.standard_normal(np.asarray(part).shape)
            cG, cF = [np.asarray(Gd.impl).copy(), np.asarray(Gd.expl).copy()], [np.asarray(Fd.impl).copy(), np.asarray(Fd.expl).copy()]
        up, dn = T.prolong(Gd), T.restrict(Fd)
        r.check(type(up) is dt_cls and type(dn) is dt_cls, 'transfer-preserves-type', f'{tag}: {dt_cls.__name__} became {type(up).__name__}/{type(dn).__name__}')
        ups = [np.asarray(up)] if dt_cls is mesh else [np.asarray(up.impl), np.asarray(up.expl)]
        dns = [np.asarray(dn)] if dt_cls is mesh else [np.asarray(dn.impl), np.asarray(dn.expl)]
        for cg, cu in zip(cG, ups):
            exp = apply(P1, cg)
            e = float(np.max(np.abs(cu - exp))) if cu.shape == exp.shape else np.inf
            r.check(e <= 1e-11 * max(1.0, float(np.max(np.abs(exp)))), 'tensor-product-per-direction', f'{tag}: prolong({dt_cls.__name__}) differs from the 1-D interpolation applied direction by direction by {e:.3e}')
        for cf, cd in zip(cF, dns):
            exp = apply(R1, cf)
            e = float(np.max(np.abs(cd - exp))) if cd.shape == exp.shape else np.inf
            r.check(e <= 1e-11 * max(1.0, float(np.max(np.abs(exp)))), 'tensor-product-per-direction', f'{tag}: restrict({dt_cls.__name__}) differs from the 1-D restriction applied direction by direction by {e:.3e}')
    r.nontrivial = len(set(ncs)) > 1
    r.observe('rect', f"{'per' if periodic else 'dir'}/dim{dim}/i{p}")
    r.sample = dict(case={k: v for k, v in case.items() if not k.startswith('_')})


def run_fft(case, r):
    from pySDC.implementations.datatype_classes.mesh import imex_mesh, mesh
    from pySDC.implementations.problem_classes.AdvectionEquation_ND_FD import advectionNd
    from pySDC.implementations.transfer_classes.TransferMesh_FFT import mesh_to_mesh_fft

    nf, nc = case['nf'], case['nc']
    r.key = f'fft/{nf}->{nc}'
    from types import SimpleNamespace

    # the class only reads nvars (int) and init of the two problems
    Pf = SimpleNamespace(nvars=nf, init=(nf, None, np.dtype('float64')))
    Pc = SimpleNamespace(nvars=nc, init=(nc, None, np.dtype('float64')))
    T = mesh_to_mesh_fft(Pf, Pc, {})
    rng = np.random.default_rng(case['seed'])
    xf = np.arange(nf) / nf
    xc = np.arange(nc) / nc
    kmax = nc // 2 - 1
    coef = [(int(k), float(rng.standard_normal()), float(rng.standard_normal())) for k in range(0, kmax + 1)]

    def fun(x):
        return sum(a * np.cos(2 * np.pi * k * x) + b * np.sin(2 * np.pi * k * x) for k, a, b in coef)

    for cls in (mesh, imex_mesh):
        G = cls(Pc.init)
        if cls is mesh:
            G[:] = fun(xc)
        else:
            G.impl[:] = fun(xc)
            G.expl[:] = 2 * fun(xc) + 1
        F = T.prolong(G)
        r.check(type(F) is cls, 'transfer-preserves-type', f'{r.key}: prolong returned {type(F).__name__}')
        got = np.asarray(F) if cls is mesh else np.asarray(F.impl)
        e = float(np.max(np.abs(got - fun(xf))))
        r.check(e <= 1e-12 * max(1.0, float(np.max(np.abs(fun(xf))))) * nf, 'fft-band-limited-exact', f'{r.key}: band-limited data (modes <= {kmax}) not reproduced by FFT prolongation: {e:.3e}')
        if cls is imex_mesh:
            e2 = float(np.max(np.abs(np.asarray(F.expl) - (2 * fun(xf) + 1))))
            r.check(e2 <= 1e-12 * nf * max(1.0, float(np.max(np.abs(fun(xf))))) * 3, 'fft-band-limited-exact', f'{r.key}: expl component not reproduced: {e2:.3e}')
        back = T.restrict(F)
        r.check(type(back) is cls, 'transfer-preserves-type', f'{r.key}: restrict returned {type(back).__name__}')
        e3 = float(np.max(np.abs(np.asarray(back) - np.asarray(G))))
        r.check(e3 <= 1e-12 * nf * max(1.0, float(np.max(np.abs(np.asarray(G))))), 'fft-restrict-after-prolong', f'{r.key}: restrict(prolong(g)) != g ({e3:.3e})')
    r.nontrivial = kmax >= 0
    r.observe('space', 'fft')
    r.sample = dict(case={k: v for k, v in case.items() if not k.startswith('_')}, modes=kmax)


def run_fft2d(case, r):
    from pySDC.implementations.datatype_classes.mesh import imex_mesh, mesh
    from pySDC.implementations.problem_classes.HeatEquation_ND_FD import heatNd_unforced
    from pySDC.implementations.transfer_classes.TransferMesh_FFT2D import mesh_to_mesh_fft2d

    nf, nc = case['nf'], case['nc']
    r.key = f'fft2d/{nf}->{nc}'
    Pf = heatNd_unforced(nvars=(nf, nf), nu=0.1, freq=(2, 2), bc='periodic')
    Pc = heatNd_unforced(nvars=(nc, nc), nu=0.1, freq=(2, 2), bc='periodic')
    T = mesh_to_mesh_fft2d(Pf, Pc, {})
    rng = np.random.default_rng(case['seed'])
    kmax = nc // 2 - 1
    a = rng.standard_normal((kmax + 1, kmax + 1, 2))

    def fun(n):
        x = np.arange(n) / n
        X, Y = np.meshgrid(x, x, indexing='ij')
        out = np.zeros((n, n))
        for k in range(kmax + 1):
            for l in range(kmax + 1):
                out += a[k, l, 0] * np.cos(2 * np.pi * (k * X + l * Y)) + a[k, l, 1] * np.sin(2 * np.pi * (k * X + l * Y))
        return out

    G = mesh(Pc.init)
    G[:] = fun(nc)
    F = T.prolong(G)
    e = float(np.max(np.abs(np.asarray(F) - fun(nf))))
    r.check(type(F) is mesh and e <= 1e-11 * nf * nf * max(1.0, float(np.max(np.abs(fun(nf))))), 'fft-band-limited-exact', f'{r.key}: 2-D band-limited data not reproduced: {e:.3e}')
    back = T.restrict(F)
    e3 = float(np.max(np.abs(np.asarray(back) - np.asarray(G))))
    r.check(e3 <= 1e-11 * nf * nf * max(1.0, float(np.max(np.abs(np.asarray(G))))), 'fft-restrict-after-prolong', f'{r.key}: restrict(prolong(g)) != g ({e3:.3e})')
    # imex branch
    Gi = imex_mesh(Pc.init)
    Gi.impl[:] = fun(nc)
    Gi.expl[:] = 2 * fun(nc)
    try:
        Fi = T.prolong(Gi)
        ok = type(Fi) is imex_mesh and np.asarray(Fi.impl).shape == (nf, nf) and float(np.max(np.abs(np.asarray(Fi.impl) - fun(nf)))) <= 1e-10 * nf * nf * max(1.0, float(np.max(np.abs(fun(nf))))) and float(np.max(np.abs(np.asarray(Fi.expl) - 2 * fun(nf)))) <= 1e-10 * nf * nf * max(1.0, float(np.max(np.abs(fun(nf)))))
        msg = 'imex_mesh prolongation wrong (shape/values)'
    except Exception as e:  # noqa
        ok, msg = False, f'imex_mesh prolongation raised {type(e).__name__}: {e}'
    r.check(ok, 'fft2d-imex', f'{r.key}: {msg}', mech='fft2d-imex-branch-broken')
    r.nontrivial = True
    r.observe('space', 'fft2d')
    r.sample = dict(case={k: v for k, v in case.items() if not k.startswith('_')})


def run_ncomp(case, r):
    """problems with several solution components per grid point (attribute ncomp), stored on the first or on the last axis:
    restriction and prolongation act on every component separately with the same Rspace / Pspace"""
    from types import SimpleNamespace

    from pySDC.implementations.datatype_classes.mesh import imex_mesh, mesh
    from pySDC.implementations.transfer_classes.TransferMesh import mesh_to_mesh

    nf, nc, dim, ncomp, last = case['nf'], case['nc'], case['dim'], case['ncomp'], case['last']
    tag = f"ncomp/{nf}->{nc}/dim{dim}/ncomp{ncomp}/{'last' if last else 'first'}/i{case['iorder']}"
    r.key = tag

    def mk(n):
        nv = n if dim == 1 else (n,) * dim
        grid = (n,) * dim
        shape = grid + (ncomp,) if last else (ncomp,) + grid
        return SimpleNamespace(nvars=nv, dx=1.0 / n, ncomp=ncomp, init=(shape, None, np.dtype('float64')))

    Pf, Pc = mk(nf), mk(nc)
    T = mesh_to_mesh(Pf, Pc, dict(iorder=case['iorder'], rorder=case['rorder'], periodic=True, equidist_nested=bool(case['seed'] % 2)))
    P, R = T.Pspace.toarray(), T.Rspace.toarray()
    rng = np.random.default_rng(case['seed'])
    take = (lambda a, i: a[..., i]) if last else (lambda a, i: a[i, ...])
    for dt_cls in (mesh, imex_mesh):
        Gd, Fd = dt_cls(Pc.init), dt_cls(Pf.init)
        parts = (lambda d: [d]) if dt_cls is mesh else (lambda d: [d.impl, d.expl])
        for part in parts(Gd) + parts(Fd):
            part[:] = rng.standard_normal(np.asarray(part).shape)
        up, dn = T.prolong(Gd), T.restrict(Fd)
        r.check(type(up) is dt_cls and type(dn) is dt_cls, 'transfer-preserves-type', f'{tag}: {dt_cls.__name__} became {type(up).__name__}/{type(dn).__name__}')
        for src, res, M_, nm, clause in ((Gd, up, P, 'prolong', 'prolong-is-Pspace'), (Fd, dn, R, 'restrict', 'restrict-is-Rspace')):
            for ps, pr in zip(parts(src), parts(res)):
                ps, pr = np.asarray(ps), np.asarray(pr)
                for i in range(ncomp):
                    want = M_ @ np.ascontiguousarray(take(ps, i)).reshape(-1)
                    e = float(np.max(np.abs(np.ascontiguousarray(take(pr, i)).reshape(-1) - want)))
                    r.check(e <= 1e-12 * max(1.0, float(np.max(np.abs(ps))) * float(np.max(np.sum(np.abs(M_), axis=1)))), clause,
                            f'{tag}: {nm}({dt_cls.__name__}) component {i} is not the operator applied to component {i} of the argument ({e:.3e})')
        # a constant per component stays that constant (periodic grids)
        Cd = dt_cls(Pc.init)
        for part in parts(Cd):
            for i in range(ncomp):
                take(part, i)[...] = float(i + 1)
        upc = T.prolong(Cd)
        for part in parts(upc):
            for i in range(ncomp):
                e = float(np.max(np.abs(np.asarray(take(part, i)) - (i + 1))))
                r.check(e <= 1e-12 * ncomp, 'constants-preserved', f'{tag}: prolong({dt_cls.__name__}) mixes components: constant {i + 1} of component {i} off by {e:.3e}')
    r.nontrivial = True
    r.observe('ncomp', f"dim{dim}/{'last' if last else 'first'}/ncomp{ncomp}")
    r.sample = dict(case={k: v for k, v in case.items() if not k.startswith('_')})


def run_nocoarse(case, r):
    from pySDC.implementations.datatype_classes.mesh import imex_mesh, mesh
    from pySDC.implementations.transfer_classes.TransferMesh_NoCoarse import mesh_to_mesh as nocoarse

    n = case['n']
    r.key = f'nocoarse/{n}'
    rng = np.random.default_rng(case['seed'])
    T = nocoarse(None, None, {})
    for cls in (mesh, imex_mesh):
        X = cls(((n,), None, np.dtype('float64')))
        X[:] = rng.standard_normal(np.asarray(X).shape)
        for op in (T.restrict, T.prolong):
            Y = op(X)
            r.check(type(Y) is cls, 'transfer-preserves-type', f'{r.key}: identity transfer turned {cls.__name__} into {type(Y).__name__} of shape {np.asarray(Y).shape}')
            r.check(np.array_equal(np.asarray(Y), np.asarray(X)) and not np.shares_memory(np.asarray(Y), np.asarray(X)), 'identity-transfer-copy', f'{r.key}: identity transfer is not an independent equal copy')
    r.nontrivial = True
    r.observe('space', 'nocoarse')
    r.sample = dict(case={k: v for k, v in case.items() if not k.startswith('_')})


def run_particles(case, r):
    from pySDC.implementations.datatype_classes.particles import acceleration, fields, particles
    from pySDC.implementations.transfer_classes.TransferParticles_NoCoarse import particles_to_particles

    n = case['n']
    r.key = f'particles/{n}'
    rng = np.random.default_rng(case['seed'])
    T = particles_to_particles(None, None, {})
    init = ((3, n), None, np.dtype('float64'))
    def parts(o):
        if isinstance(o, particles):
            return [o.pos, o.vel, o.q, o.m]
        if isinstance(o, fields):
            return [o.elec, o.magn]
        return [o]

    for cls in (particles, fields, acceleration):
        X = cls(init)
        for a in parts(X)[:2]:
            a[:] = rng.standard_normal(np.asarray(a).shape)
        for op in (T.restrict, T.prolong):
            Y = op(X)
            r.check(type(Y) is cls, 'transfer-preserves-type', f'{r.key}: {cls.__name__} became {type(Y).__name__}')
            same = all(np.array_equal(np.asarray(a), np.asarray(b)) for a, b in zip(parts(X), parts(Y)))
            indep = not any(np.shares_memory(np.asarray(a), np.asarray(b)) for a, b in zip(parts(X), parts(Y)))
            r.check(same and indep, 'identity-transfer-copy', f'{r.key}: particle transfer of {cls.__name__} is not an independent equal copy (equal={same}, independent={indep})')
    r.nontrivial = True
    r.observe('space', 'particles')
    r.sample = dict(case={k: v for k, v in case.items() if not k.startswith('_')})


def run_case(case):
    r = Result(case)
    dict(coll=run_coll, space=run_space, rect=run_rect, fft=run_fft, fft2d=run_fft2d, ncomp=run_ncomp, nocoarse=run_nocoarse, particles=run_particles)[case['kind']](case, r)
    r.count('kind:' + case['kind'])
    return r


def finalize(agg):
    out = []
    c = agg['counters']
    for k in ('oracle:Pcoll-polynomial-exact', 'oracle:Rcoll-Pcoll-identity', 'oracle:Pspace-nearest-lagrange', 'oracle:Rspace-is-half-PT', 'oracle:fft-band-limited-exact',
              'oracle:transfer-preserves-type', 'oracle:dirichlet-polynomial-reproduced', 'oracle:prolong-is-Pspace', 'oracle:tensor-product-per-direction'):
        if c.get(k, 0) == 0:
            out.append(f'monitor {k} never evaluated')
    return out
