"""C05 — collocation nodes, weights and integration matrices are exact on every interval.

Monitor: every public attribute of a freshly constructed CollBase is read back and judged in
60-digit arithmetic (mpmath) on the *float values delivered*; reference coefficients on [0,1]
come from qmat directly (trusted base), never from the object under test.
"""

import numpy as np

from vf.core import Result

PROPERTY = 'C05'
LEVEL = 'exploration'
TECHNIQUE = 'runtime contract on CollBase attributes checked in extended precision (mpmath) + qmat reference on [0,1]'
RULE = (
    'one case = one (node_type, quad_type, num_nodes 1..16) with a sequence of CollBase objects built one after the other in one process on [0,1], shifted copies of identical length, repeats and seeded hostile intervals; the (type x type x count) '
    'grid is enumerated completely, intervals are [0,1] plus seeded random ones (negative, large offset up to 1e6, width down to 1e-3); '
    'non-trivial = the object was constructed and at least the weight-exactness and Q/S-exactness oracles ran; distinct by '
    '(node_type, quad_type, num_nodes, interval)'
)
ASSUMPTIONS = [
    'qmat (external coefficient library) is trusted for the reference coefficients on [0,1]',
    'mpmath 60-digit arithmetic is exact enough to judge float64 data',
    'tolerances: C*eps*sum|w|*(deg+1)*(1+(|a|+|b|)/(b-a)) absolute, C=256 (calibrated: worst observed ratio recorded in evidence)',
]
EXHAUSTIVE = {'quick': False, 'thorough': False}
NODE_TYPES = ['EQUID', 'LEGENDRE', 'CHEBY-1', 'CHEBY-2', 'CHEBY-3', 'CHEBY-4']
QUAD_TYPES = ['GAUSS', 'LOBATTO', 'RADAU-LEFT', 'RADAU-RIGHT']
EPS = 2.0**-52


def intervals(tier, seed):
    rng = np.random.default_rng(seed + 505)
    out = [(0.0, 1.0)]
    n = 9 if tier == 'quick' else 63
    for i in range(n):
        kind = (i + 2) % 8  # the two extreme-width kinds come first so that the quick tier has them
        if kind == 0:
            a = float(rng.uniform(-10, 10))
            w = float(10 ** rng.uniform(-2, 1))
        elif kind == 1:
            a = float(-(10 ** rng.uniform(0, 6)))
            w = float(10 ** rng.uniform(-3, 2))
        elif kind == 2:
            a = float(10 ** rng.uniform(2, 6))
            w = float(10 ** rng.uniform(-3, 0))
        elif kind == 3:
            a = float(rng.uniform(-1, 0))
            w = float(rng.uniform(0.5, 3))  # straddles zero
        elif kind == 4:
            a = float(rng.integers(-1000, 1000))
            w = float(rng.choice([0.1, 0.01, 0.3, 0.25, 1e-3]))
        elif kind == 5:
            a = float(10 ** rng.uniform(-6, -1))
            w = float(10 ** rng.uniform(-6, -1))
        elif kind == 6:
            # tiny steps (late stages of an adaptive run): every coefficient is O(width), nothing may be judged against an absolute scale
            w = float(10 ** rng.uniform(-14, -8))
            a = float(rng.choice([0.0, 1.0, -1.0])) * w * float(rng.integers(0, 50))
        else:
            w = float(10 ** rng.uniform(3, 8))
            a = float(rng.uniform(-1, 1)) * w
        out.append((a, a + w))
    return out


def cases(tier, seed):
    """one case = one (node_type, quad_type, num_nodes) and a *sequence* of intervals built one after the other in the same
    process (several with bit-identical length but different offset, and repeats), so that state leaking from one object
    into the next (caches keyed too coarsely) is observable."""
    ivs = intervals(tier, seed)
    seq = [(0.0, 1.0), (1.0, 2.0), (-1.0, 0.0), (3.0, 4.0), (0.0, 0.5), (0.5, 1.0)] + ivs[1:] + [(0.0, 1.0), (2.0, 4.0), (0.0, 2.0)]
    cs = []
    for nt in NODE_TYPES:
        for qt in QUAD_TYPES:
            for M in range(1, 17):
                cs.append(dict(nt=nt, qt=qt, M=M, ivs=[list(x) for x in seq], _cost=M * M))
    return cs


def expected_reject(qt, M):
    return M == 1 and qt in ('LOBATTO', 'RADAU-LEFT')


def run_case(case):
    r = Result(case)
    r.key = f"{case['nt']}/{case['qt']}/{case['M']}"
    nontrivial = 0
    for i, (a, b) in enumerate(case['ivs']):
        sub = Result(case)
        judge(sub, case['nt'], case['qt'], case['M'], float(a), float(b), i)
        for v in sub.violations:
            r.violations.append(v)
        r.inconclusive += sub.inconclusive
        for k, v in sub.counters.items():
            r.counters[k] = r.counters.get(k, 0) + v
        for k, v in sub.seen.items():
            r.seen.setdefault(k, set()).update(v)
        nontrivial += bool(sub.nontrivial)
        if sub.sample and r.sample is None and i == 7:
            r.sample = sub.sample
    r.nontrivial = nontrivial > 0
    r.counters['objects_judged'] = nontrivial
    return r


def judge(r, nt, qt, M, a, b, idx):
    import mpmath as mp
    from qmat import Q_GENERATORS

    from pySDC.core.collocation import CollBase
    from pySDC.core.errors import CollocationError

    mp.mp.dps = 60
    case = dict(nt=nt, qt=qt, M=M, a=a, b=b, _i=idx)
    r.key = f'{nt}/{qt}/{M}/{a!r}/{b!r}'
    try:
        c = CollBase(num_nodes=M, tleft=a, tright=b, node_type=nt, quad_type=qt)
    except CollocationError as e:
        r.check(expected_reject(qt, M), 'reject-only-impossible', f'CollBase{(M, a, b, nt, qt)} rejected: {e}')
        r.observe('rejected', f'{nt}/{qt}/{M}')
        r.count('rejected')
        return r
    r.check(not expected_reject(qt, M), 'impossible-rule-rejected', f'CollBase{(M, a, b, nt, qt)} was accepted but the rule cannot exist')
    try:
        ref = Q_GENERATORS['Collocation'](nNodes=M, nodeType=nt, quadType=qt, tLeft=0, tRight=1)
    except Exception as e:  # noqa
        r.incon(f'qmat reference failed: {e}')
        return r
    h = b - a
    big = max(abs(a), abs(b))
    # Known mechanism (qmat, external): Collocation.__init__ snaps the first/last node onto the interval end with
    # np.allclose (rtol 1e-5, atol 1e-8) even for rules that exclude that end.  Decide from the *reference* geometry.
    n01_ = np.asarray(ref.nodes, dtype=float)
    snapL = qt in ('GAUSS', 'RADAU-RIGHT') and bool(np.isclose(a, a + h * n01_[0]))
    snapR = qt in ('GAUSS', 'RADAU-LEFT') and bool(np.isclose(b, a + h * n01_[-1]))
    snapped = snapL or snapR
    nodes = np.asarray(c.nodes, dtype=float)
    w = np.asarray(c.weights, dtype=float)
    Q = np.asarray(c.Qmat, dtype=float)
    S = np.asarray(c.Smat, dtype=float)
    # ---- shapes / padding
    r.check(nodes.shape == (M,) and w.shape == (M,) and Q.shape == (M + 1, M + 1) and S.shape == (M + 1, M + 1), 'shapes', 'attribute shapes wrong')
    if r.violations:
        return r
    r.check(c.num_nodes == M and c.tleft == a and c.tright == b, 'meta', 'num_nodes/tleft/tright not as given')
    r.check(not Q[0, :].any() and not Q[:, 0].any(), 'Q-padding', 'first row/column of Qmat not zero')
    r.check(not S[0, :].any() and not S[:, 0].any(), 'S-padding', 'first row/column of Smat not zero')
    # ---- flags
    left = qt in ('LOBATTO', 'RADAU-LEFT')
    right = qt in ('LOBATTO', 'RADAU-RIGHT')
    r.check(c.left_is_node == left and c.right_is_node == right, 'flags', f'flags {c.left_is_node},{c.right_is_node} for {qt}')
    ulp = 4 * EPS * max(big, h)
    r.check(np.all(np.diff(nodes) > 0), 'nodes-increasing', f'nodes not strictly increasing: {nodes}')
    r.check(nodes[0] >= a - ulp and nodes[-1] <= b + ulp, 'nodes-inside', f'nodes leave [{a},{b}]: {nodes[0]}, {nodes[-1]}')
    if left:
        r.check(abs(nodes[0] - a) <= ulp, 'left-node', f'left end not a node: {nodes[0]} vs {a}')
    else:
        r.check(nodes[0] - a > 1e-4 * h / M**2, 'left-not-node', f'left end is a node for {qt}: {nodes[0]} vs {a} ({r.key})',
                mech='qmat-allclose-endpoint-snap' if (snapL and nodes[0] == a) else None)
    if right:
        r.check(abs(nodes[-1] - b) <= ulp, 'right-node', f'right end not a node: {nodes[-1]} vs {b}')
    else:
        r.check(b - nodes[-1] > 1e-4 * h / M**2, 'right-not-node', f'right end is a node for {qt}: {nodes[-1]} vs {b} ({r.key})',
                mech='qmat-allclose-endpoint-snap' if (snapR and nodes[-1] == b) else None)
    if snapped and ((snapL and nodes[0] == a) or (snapR and nodes[-1] == b)):
        # node set is polluted by the known mechanism: the exactness / affine oracles below would only repeat it.
        r.count('snapped_cases')
        r.observe('snapped', f'{nt}/{qt}/{M}')
        return r
    # ---- order
    order = int(c.order)
    r.check(order == int(ref.order), 'order-vs-qmat', f'order {order} != qmat {ref.order}')
    if nt == 'LEGENDRE':
        theo = {'GAUSS': 2 * M, 'RADAU-LEFT': 2 * M - 1, 'RADAU-RIGHT': 2 * M - 1, 'LOBATTO': 2 * M - 2}[qt]
        r.check(order == theo, 'order-theory', f'order {order} != theoretical {theo}')
    else:
        r.check(order >= M, 'order-theory', f'order {order} < number of nodes {M}')
    # ---- exactness in 60 digits
    A = mp.mpf(a)
    H = mp.mpf(b) - mp.mpf(a)
    s = [(mp.mpf(float(x)) - A) / H for x in nodes]  # in [0,1]
    pw = [[mp.mpf(1)] * M]
    for k in range(1, max(order, M) + 1):
        pw.append([pw[-1][j] * s[j] for j in range(M)])
    scale = 1.0 + 2 * big / h
    sumw = float(np.sum(np.abs(w))) / h
    worst = 0.0
    for k in range(order):
        got = mp.fsum(mp.mpf(float(w[j])) * pw[k][j] for j in range(M))
        exact = H / (k + 1)
        err = float(abs(got - exact) / H)
        tol = 256 * EPS * max(sumw, 1.0) * (k + 1) * scale
        worst = max(worst, err / tol)
        r.check(err <= tol, 'weights-exact', f'sum w_j p_{k}(x_j) off by {err:.3e}*(b-a) (tol {tol:.1e}) for {r.key}', degree=k)
    # Q: rows m=1..M integrate from a to node m ; S from node m-1 to node m
    sfull = [mp.mpf(0)] + s
    for m in range(1, M + 1):
        rowabs = max(float(np.sum(np.abs(Q[m, 1:]))) / h, 1.0)
        rowabsS = max(float(np.sum(np.abs(S[m, 1:]))) / h, 1.0)
        for k in range(M):
            gotQ = mp.fsum(mp.mpf(float(Q[m, j + 1])) * pw[k][j] for j in range(M))
            exQ = H * sfull[m] ** (k + 1) / (k + 1)
            errQ = float(abs(gotQ - exQ) / H)
            tolQ = 256 * EPS * rowabs * (k + 1) * scale
            worst = max(worst, errQ / tolQ)
            r.check(errQ <= tolQ, 'Q-exact', f'Q row {m} degree {k} off by {errQ:.3e}*(b-a) (tol {tolQ:.1e}) for {r.key}')
            gotS = mp.fsum(mp.mpf(float(S[m, j + 1])) * pw[k][j] for j in range(M))
            exS = H * (sfull[m] ** (k + 1) - sfull[m - 1] ** (k + 1)) / (k + 1)
            errS = float(abs(gotS - exS) / H)
            tolS = 256 * EPS * max(rowabs, rowabsS) * (k + 1) * scale * 2
            worst = max(worst, errS / tolS)
            r.check(errS <= tolS, 'S-exact', f'S row {m} degree {k} off by {errS:.3e}*(b-a) (tol {tolS:.1e}) for {r.key}')
    r.nontrivial = True
    # ---- Q/S consistency
    absQ = max(float(np.max(np.sum(np.abs(Q), axis=1))), h)
    dq = np.max(np.abs(np.cumsum(S, axis=0) - Q))
    r.check(dq <= 64 * EPS * absQ * M, 'Q=cumsum(S)', f'|cumsum(S)-Q| = {dq:.3e}')
    ds = np.max(np.abs(np.diff(Q, axis=0) - S[1:]))
    r.check(ds <= 64 * EPS * absQ, 'S=diff(Q)', f'|diff(Q)-S| = {ds:.3e}')
    # weights == last row of Q iff right end is node
    if right:
        dwq = np.max(np.abs(Q[-1, 1:] - w))
        r.check(dwq <= 256 * EPS * max(sumw, 1) * h * M * scale, 'weights=Q[-1]', f'|Q[-1]-w| = {dwq:.3e}')
    # ---- delta_m
    dm = np.asarray(c.delta_m, dtype=float)
    exp_dm = np.diff(np.concatenate([[a], nodes]))
    r.check(dm.shape == (M,) and np.max(np.abs(dm - exp_dm)) <= 4 * EPS * max(big, h), 'delta_m', f'delta_m {dm} vs {exp_dm}')
    # ---- affine covariance vs qmat reference on [0,1]
    n01 = np.asarray(ref.nodes, dtype=float)
    w01 = np.asarray(ref.weights, dtype=float)
    Q01 = np.asarray(ref.Q, dtype=float)
    en = np.max(np.abs(nodes - (a + h * n01)))
    r.check(en <= 8 * EPS * max(big, h), 'affine-nodes', f'nodes differ from a+(b-a)*nodes01 by {en:.3e}')
    ew = np.max(np.abs(w - h * w01)) / h
    r.check(ew <= 4096 * EPS * max(sumw, 1) * M * scale, 'affine-weights', f'weights differ from (b-a)*w01 by {ew:.3e}*(b-a)')
    eq = np.max(np.abs(Q[1:, 1:] - h * Q01)) / h
    r.check(eq <= 4096 * EPS * max(absQ / h, 1) * M * scale, 'affine-Q', f'Qmat differs from (b-a)*Q01 by {eq:.3e}*(b-a)')
    # ---- evaluate()
    data = np.cos(np.arange(M) + 0.3)
    r.check(abs(CollBase.evaluate(c.weights, data) - float(np.dot(w, data))) <= 1e-14 * max(1, np.sum(np.abs(w))), 'evaluate', 'evaluate != dot')
    # ---- attributes are private copies (mutating the delivered arrays must not leak into a new object)
    # ---- sweeper switch: do_coll_update forced on iff right end is not a node
    if M <= 9 and case.get('_i', 0) % 3 == 0:
        from pySDC.implementations.sweeper_classes.generic_implicit import generic_implicit

        for want in (False, True):
            sw = generic_implicit(dict(num_nodes=M, quad_type=qt, node_type=nt, QI='IE', do_coll_update=want), None)
            exp = want or not right
            r.check(bool(sw.params.do_coll_update) == exp, 'do_coll_update', f'do_coll_update={sw.params.do_coll_update} for {qt}, requested {want}')
            r.check(sw.coll.right_is_node == right and sw.coll.num_nodes == M, 'sweeper-coll', 'sweeper built a different rule')
    r.counters['worst_ratio_ppm'] = 0
    r.observe('worst_err_over_tol_decile', int(min(worst, 1.0) * 10))
    r.observe('rule', f'{nt}/{qt}')
    r.sample = dict(case={k: v for k, v in case.items() if not k.startswith('_')}, order=order, worst_err_over_tol=worst)
    return r


def finalize(agg):
    out = []
    c = agg['counters']
    for k in ('oracle:weights-exact', 'oracle:Q-exact', 'oracle:S-exact', 'oracle:affine-Q', 'oracle:do_coll_update'):
        if c.get(k, 0) == 0:
            out.append(f'monitor {k} never evaluated')
    return out


def coverage_extra(agg, tier):
    return dict(grid='node_type(6) x quad_type(4) x num_nodes(1..16) enumerated completely; intervals sampled', grid_exhaustive=True)
