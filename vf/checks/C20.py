"""C20 — descriptions are interpreted consistently and invalid setups are rejected.

kind=valid : a random valid description (1-4 levels, random list/scalar shapes of every parameter) is instantiated and the
             live hierarchy is compared with an independent expansion ("lists are per level, last entry repeats, scalars shared");
kind=cc    : convergence-controller setups (user supplied, dependencies, overrides) - instantiated once, ascending order, user
             parameters win;
kind=fault : one single-fault perturbation of a valid description must raise before run() returns.
"""

import copy

import numpy as np

from vf.core import Result

PROPERTY = 'C20'
LEVEL = 'exploration'
TECHNIQUE = 'differential monitor: live hierarchy vs independent description-expansion model + single-fault catalogue (negative oracle: must raise)'
RULE = (
    'kind=valid: one generated description with random list/scalar shapes (lists of any length <= number of levels, equal and unequal lengths) over problem, sweeper, level, transfer '
    'parameters, 1-4 levels, 1-3 steps; kind=cc: one convergence-controller configuration; kind=fault: one catalogue fault on one random valid base; '
    'non-trivial = the hierarchy was built and compared (valid/cc) or the fault was applied (fault); distinct by description shape / fault name'
)
ASSUMPTIONS = [
    'the expansion model is the documented rule: a list is per level, its last entry repeats, a scalar is shared, the number of levels is the longest list',
    'fault catalogue is fixed (listed in evidence.observed.fault); a fault counts as rejected if any exception is raised at construction or during the first run',
]
EXHAUSTIVE = {'quick': False, 'thorough': False}
NV = [31, 15, 7, 3]


def shape_list(rng, nlev, values):
    """random representation of per-level values: scalar (if all equal), full list, or a shorter list whose last entry repeats"""
    vals = list(values[:nlev])
    k = nlev
    while k > 1 and vals[k - 1] == vals[k - 2]:
        k -= 1
    minimal = vals[:k]
    choice = rng.random()
    if len(minimal) == 1 and choice < 0.5:
        return minimal[0]
    if choice < 0.75:
        return list(minimal)
    return list(vals[: int(rng.integers(len(minimal), nlev + 1))])


def gen_valid(rng, nlev=None):
    nlev = nlev or int(rng.integers(1, 5))
    # per-level intended values (independent of their representation)
    nvars = NV[:nlev]
    Ms = sorted([int(rng.integers(2, 6)) for _ in range(nlev)], reverse=True) if rng.random() < 0.7 else [3] * nlev
    dts = [0.05] * nlev
    nsw = [int(rng.choice([1, 2])) for _ in range(nlev)]
    if nlev > 1:
        nsw[-1] = 1
    restol = [float(10.0 ** int(rng.integers(-10, -5)))] * nlev if rng.random() < 0.6 else [float(10.0 ** -(6 + i)) for i in range(nlev)]
    rtype = [str(rng.choice(['full_abs', 'last_abs', 'full_rel', 'last_rel']))] * nlev
    QI = [str(rng.choice(['LU', 'IE', 'MIN-SR-S']))] * nlev if rng.random() < 0.6 else [['LU', 'IE', 'MIN-SR-S', 'LU2'][i % 4] for i in range(nlev)]
    nu = [float(rng.uniform(0.05, 0.5))] * nlev if rng.random() < 0.7 else [0.1 * (i + 1) for i in range(nlev)]
    fd = [int(rng.choice([2, 4]))] * nlev if nlev < 4 else [2] * nlev
    iorder = [int(rng.choice([2, 4]))] * nlev
    finter = [bool(rng.random() < 0.5)] * nlev
    intended = dict(nvars=nvars, num_nodes=Ms, dt=dts, nsweeps=nsw, restol=restol, residual_type=rtype, QI=QI, nu=nu, order=fd, iorder=iorder, finter=finter)
    d = dict(
        problem_params=dict(nvars=shape_list(rng, nlev, nvars) if nlev > 1 else nvars[0], nu=shape_list(rng, nlev, nu), freq=1, bc='dirichlet-zero', order=shape_list(rng, nlev, fd)),
        sweeper_params=dict(num_nodes=shape_list(rng, nlev, Ms), quad_type='RADAU-RIGHT', QI=shape_list(rng, nlev, QI)),
        level_params=dict(dt=shape_list(rng, nlev, dts), restol=shape_list(rng, nlev, restol), residual_type=shape_list(rng, nlev, rtype), nsweeps=shape_list(rng, nlev, nsw)),
        step_params=dict(maxiter=int(rng.integers(1, 4))),
    )
    if nlev > 1:
        # transfer parameters are stated per level as a top-level list of dictionaries (entry l belongs to the transfer l-1 -> l) or one shared dictionary
        iorder = [int(rng.choice([2, 4]))] * nlev if rng.random() < 0.5 else [[2, 4][i % 2] for i in range(nlev)]
        finter = [bool(rng.random() < 0.5)] * nlev if rng.random() < 0.5 else [bool(i % 2) for i in range(nlev)]
        intended.update(iorder=iorder, finter=finter)
        sp = shape_list(rng, nlev, [dict(iorder=io, rorder=2) for io in iorder])
        bp = shape_list(rng, nlev, [dict(finter=fi) for fi in finter])
        d['space_transfer_params'] = sp
        d['base_transfer_params'] = bp
    return dict(nlev=nlev, desc=d, intended=intended, procs=int(rng.integers(1, 4)))


FAULTS = [
    'drop problem_class', 'drop sweeper_class', 'drop sweeper_params', 'drop level_params', 'drop num_nodes', 'no space transfer', 'bad predict_type ML', 'bad residual_type',
    'bad initial_guess', 'bad quad_type', 'bad node_type', 'bad QI', 'nsweeps coarse>1', 'PFASST GAUSS', 'PFASST RADAU-LEFT', 'PFASST mixed quad_type', 'dtype_u key', 'dtype_f key', 'predict key',
    'level.status.foo', 'level.params.foo', 'step.status.foo', 'step.params.foo', 'sweep.params.foo', 'controller.params.foo', 'level.foo', 'step.foo', 'prob.nvars=', 'prob.nu=',
    'odd iorder', 'bad QE', 'attribute of a sibling class',
]


def cases(tier, seed):
    rng = np.random.default_rng(seed + 2020)
    cs = []
    for i in range(400 if tier == 'quick' else 9000):
        cs.append(dict(kind='valid', seed=int(rng.integers(0, 2**31)), _cost=8))
    for i in range(60 if tier == 'quick' else 900):
        cs.append(dict(kind='cc', seed=int(rng.integers(0, 2**31)), variant=i % 8, _cost=4))
    nb = 12 if tier == 'quick' else 300
    for b in range(nb):
        s = int(rng.integers(0, 2**31))
        for f in FAULTS:
            cs.append(dict(kind='fault', fault=f, seed=s, _cost=4))
    return cs


def materialize(spec):
    from pySDC.implementations.problem_classes.HeatEquation_ND_FD import heatNd_unforced
    from pySDC.implementations.sweeper_classes.generic_implicit import generic_implicit
    from pySDC.implementations.transfer_classes.TransferMesh import mesh_to_mesh

    d = copy.deepcopy(spec['desc'])
    d['problem_class'] = heatNd_unforced
    d['sweeper_class'] = generic_implicit
    if spec['nlev'] > 1:
        d['space_transfer_class'] = mesh_to_mesh
    return d


def expand(v, l):
    return v[min(l, len(v) - 1)] if type(v) is list else v


def run_valid(case, r):
    from pySDC.implementations.controller_classes.controller_nonMPI import controller_nonMPI

    rng = np.random.default_rng(case['seed'])
    spec = gen_valid(rng)
    nlev, procs = spec['nlev'], spec['procs']
    d = materialize(spec)
    r.key = f"valid/{nlev}/{procs}/{ {k: (v if not isinstance(v, dict) else {kk: vv for kk, vv in v.items()}) for k, v in spec['desc'].items()} }"
    tag = f"valid nlev={nlev} procs={procs} desc={spec['desc']}"
    cp = dict(logger_level=50, dump_setup=False)
    if nlev > 1:
        cp['predict_type'] = [None, 'fine_only', 'pfasst_burnin'][int(rng.integers(0, 3))]
    d_before = copy.deepcopy(spec['desc'])
    ctrl = controller_nonMPI(procs, cp, d)
    # number of levels = longest list
    longest = 1
    for grp in ('problem_params', 'sweeper_params', 'level_params'):
        for k, v in spec['desc'].get(grp, {}).items():
            if type(v) is list:
                longest = max(longest, len(v))
    for grp in ('space_transfer_params', 'base_transfer_params'):
        if type(spec['desc'].get(grp)) is list:
            longest = max(longest, len(spec['desc'][grp]))
    for si, S in enumerate(ctrl.MS):
        r.check(len(S.levels) == longest == nlev, 'number-of-levels', f'{tag}: step {si} has {len(S.levels)} levels, longest list has {longest} entries (intended {nlev})')
        if len(S.levels) != nlev:
            return
        for l, L in enumerate(S.levels):
            sd = spec['desc']
            exp = dict(
                dt=expand(sd['level_params']['dt'], l), restol=expand(sd['level_params']['restol'], l), residual_type=expand(sd['level_params']['residual_type'], l), nsweeps=expand(sd['level_params']['nsweeps'], l),
                num_nodes=expand(sd['sweeper_params']['num_nodes'], l), QI=expand(sd['sweeper_params']['QI'], l), nvars=expand(sd['problem_params']['nvars'], l), nu=expand(sd['problem_params']['nu'], l),
                order=expand(sd['problem_params']['order'], l),
            )
            got = dict(dt=L.params.dt, restol=L.params.restol, residual_type=L.params.residual_type, nsweeps=L.params.nsweeps, num_nodes=L.sweep.coll.num_nodes, QI=L.sweep.params.QI,
                       nvars=L.prob.nvars[0] if isinstance(L.prob.nvars, tuple) else L.prob.nvars, nu=L.prob.nu, order=L.prob.order)
            for k in exp:
                r.check(got[k] == exp[k], 'level-gets-stated-parameter', f'{tag}: step {si} level {l}: {k} = {got[k]!r}, the description states {exp[k]!r}')
                r.check(got[k] == spec['intended'][k][l], 'level-gets-intended-parameter', f'{tag}: step {si} level {l}: {k} = {got[k]!r}, intended {spec["intended"][k][l]!r}')
            r.check(L.level_index == l and L.prob.A.shape[0] == exp['nvars'] and len(L.u) == exp['num_nodes'] + 1, 'level-objects-consistent', f'{tag}: level {l} objects inconsistent with its parameters')
            r.check(L.sweep.coll.quad_type == 'RADAU-RIGHT', 'shared-scalar', f'{tag}: shared scalar quad_type not applied on level {l}')
        if nlev > 1:
            tdict = getattr(S, '_Step__transfer_dict')
            for (src, tgt), fn in tdict.items():
                li, lj = S.levels.index(src), S.levels.index(tgt)
                if lj == li + 1:
                    bt = fn.__self__
                    exp_io = expand(spec['desc']['space_transfer_params'], lj)['iorder']
                    exp_fi = expand(spec['desc']['base_transfer_params'], lj)['finter']
                    r.check(exp_io == spec['intended']['iorder'][lj] and exp_fi == spec['intended']['finter'][lj], 'model-self-check', 'expansion model disagrees with the intended values')
                    r.check(bt.space_transfer.params.iorder == exp_io, 'transfer-gets-stated-parameter', f'{tag}: transfer {li}->{lj} iorder {bt.space_transfer.params.iorder} vs stated {exp_io}')
                    r.check(bool(bt.params.finter) == bool(exp_fi), 'transfer-gets-stated-parameter', f'{tag}: transfer {li}->{lj} finter {bt.params.finter} vs stated {exp_fi}')
                    r.check(bt.fine is S.levels[li] and bt.coarse is S.levels[lj], 'transfer-connects-neighbours', f'{tag}: transfer object connects wrong levels')
    r.check(ctrl.MS[0].params.maxiter == spec['desc']['step_params']['maxiter'], 'step-params', f'{tag}: maxiter not applied')
    # all steps are independent objects
    if procs > 1:
        r.check(ctrl.MS[0].levels[0] is not ctrl.MS[1].levels[0] and ctrl.MS[0].levels[0].prob is not ctrl.MS[1].levels[0].prob, 'steps-are-separate-objects', f'{tag}: steps share level/problem objects')
    # a run works
    P = ctrl.MS[0].levels[0].prob
    ctrl.run(P.u_exact(0.0), 0.0, 0.05 * procs)
    r.nontrivial = True
    r.observe('nlev', nlev)
    shp = []
    for grp in ('problem_params', 'sweeper_params', 'level_params'):
        for k, v in spec['desc'][grp].items():
            if type(v) is list:
                shp.append(len(v))
    r.observe('list_lengths', str(sorted(shp)))
    r.sample = dict(nlev=nlev, procs=procs, desc=spec['desc'])


def run_cc(case, r):
    from pySDC.implementations.controller_classes.controller_nonMPI import controller_nonMPI
    from pySDC.implementations.convergence_controller_classes.adaptivity import Adaptivity
    from pySDC.implementations.convergence_controller_classes.basic_restarting import BasicRestartingNonMPI
    from pySDC.implementations.convergence_controller_classes.check_convergence import CheckConvergence
    from pySDC.implementations.convergence_controller_classes.estimate_embedded_error import EstimateEmbeddedError
    from pySDC.implementations.convergence_controller_classes.spread_step_sizes import SpreadStepSizesBlockwiseNonMPI
    from pySDC.implementations.convergence_controller_classes.step_size_limiter import StepSizeLimiter, StepSizeSlopeLimiter

    rng = np.random.default_rng(case['seed'])
    spec = gen_valid(rng, nlev=1)
    d = materialize(spec)
    d['level_params']['restol'] = -1.0
    v = case['variant']
    user = {}
    expect = {}
    if v == 0:
        user = {Adaptivity: dict(e_tol=1e-5, beta=0.7)}
        expect = {Adaptivity: dict(e_tol=1e-5, beta=0.7)}
        need = [Adaptivity, EstimateEmbeddedError, CheckConvergence, BasicRestartingNonMPI, SpreadStepSizesBlockwiseNonMPI]
    elif v == 1:
        user = {Adaptivity: dict(e_tol=1e-5, dt_min=1e-4, dt_slope_max=3.0)}
        expect = {StepSizeLimiter: dict(dt_min=1e-4), StepSizeSlopeLimiter: dict(dt_slope_max=3.0)}
        need = [Adaptivity, StepSizeLimiter, StepSizeSlopeLimiter]
    elif v == 2:
        # the user configures a controller that another one also loads as a dependency: the user's values win
        user = {Adaptivity: dict(e_tol=1e-5, dt_min=1e-4, dt_slope_max=3.0), StepSizeLimiter: dict(dt_min=5e-3, dt_max=0.4), StepSizeSlopeLimiter: dict(dt_slope_max=1.7, dt_slope_min=0.3)}
        expect = {StepSizeLimiter: dict(dt_min=5e-3, dt_max=0.4), StepSizeSlopeLimiter: dict(dt_slope_max=1.7, dt_slope_min=0.3)}
        need = [Adaptivity, StepSizeLimiter, StepSizeSlopeLimiter]
    elif v == 3:
        user = {BasicRestartingNonMPI: dict(max_restarts=3, crash_after_max_restarts=False), CheckConvergence: dict(control_order=250)}
        expect = {BasicRestartingNonMPI: dict(max_restarts=3, crash_after_max_restarts=False), CheckConvergence: dict(control_order=250)}
        need = [BasicRestartingNonMPI, CheckConvergence, SpreadStepSizesBlockwiseNonMPI]
    elif v == 4:
        # user moves a dependency in the call order
        user = {Adaptivity: dict(e_tol=1e-5, dt_min=1e-4, dt_slope_min=0.2), StepSizeSlopeLimiter: dict(control_order=90.5, dt_slope_min=0.25)}
        expect = {StepSizeSlopeLimiter: dict(control_order=90.5, dt_slope_min=0.25)}
        need = [Adaptivity, StepSizeLimiter, StepSizeSlopeLimiter]
    elif v == 5:
        user = {Adaptivity: dict(e_tol=1e-5), SpreadStepSizesBlockwiseNonMPI: dict(overwrite_to_reach_Tend=False)}
        expect = {SpreadStepSizesBlockwiseNonMPI: dict(overwrite_to_reach_Tend=False)}
        need = [Adaptivity, SpreadStepSizesBlockwiseNonMPI]
    else:
        # two requested controllers related by inheritance (a user's subclass and its base class), in either order: every
        # requested class is instantiated once, with its own parameters - "already present" is a statement about the class itself
        class SlopeLimiterVariant(StepSizeSlopeLimiter):
            pass

        a, b = float(rng.uniform(1.5, 2.5)), float(rng.uniform(3.0, 4.0))
        pair = [(SlopeLimiterVariant, dict(dt_slope_max=a)), (StepSizeSlopeLimiter, dict(dt_slope_max=b))]
        if v == 7:
            pair.reverse()
        user = dict(pair)
        expect = dict(pair)
        need = [SlopeLimiterVariant, StepSizeSlopeLimiter]
    d['convergence_controllers'] = user
    r.key = f'cc/{v}/{spec["procs"]}'
    tag = f'cc variant {v}: user={ {k.__name__: val for k, val in user.items()} }'
    ctrl = controller_nonMPI(spec['procs'], dict(logger_level=50, dump_setup=False, mssdc_jac=False), d)
    ccs = ctrl.convergence_controllers
    types = [type(c) for c in ccs]
    r.check(len(types) == len(set(types)), 'controllers-instantiated-once', f'{tag}: duplicate convergence controllers {[t.__name__ for t in types]}')
    for n in need:
        r.check(n in types, 'dependencies-loaded', f'{tag}: {n.__name__} missing from {[t.__name__ for t in types]}')
    order = list(ctrl.convergence_controller_order)
    orders = [ccs[i].params.control_order for i in order]
    r.check(sorted(order) == list(range(len(ccs))), 'order-is-permutation', f'{tag}: order list {order} is not a permutation of the controllers')
    r.check(all(a <= b for a, b in zip(orders[:-1], orders[1:])), 'ascending-control-order', f'{tag}: call order {[(type(ccs[i]).__name__, ccs[i].params.control_order) for i in order]} is not ascending')
    for cls, pars in expect.items():
        inst = [c for c in ccs if type(c) is cls]
        r.check(len(inst) <= 1, 'controllers-instantiated-once', f'{tag}: {cls.__name__} instantiated {len(inst)} times')
        if not inst:
            continue
        for k, val in pars.items():
            r.check(getattr(inst[0].params, k) == val, 'user-parameters-win', f'{tag}: {cls.__name__}.params.{k} = {getattr(inst[0].params, k)!r}, the user supplied {val!r}')
    r.nontrivial = True
    r.observe('cc_variant', v)
    r.sample = dict(variant=v, order=[(type(ccs[i]).__name__, float(ccs[i].params.control_order)) for i in order])


# names one slip away from a valid one (calibrated: none of them is an alias the libraries accept); a validation that only looks
# at a prefix, a suffix or the lower-cased name lets some of them through
NEAR_MISS = dict(
    residual_type=['foo', 'full', 'last', 'full_relative', 'last_real', 'full_ABS', 'FULL_abs', 'full_abs_rel', 'fullabs', 'full_max', 'full_abs ', 'full-abs', 'abs', 'rel_full', 'last_absolute', 'last_'],
    quad_type=['foo', 'RADAU', 'RADAU-RIGHTT', 'radau-right', 'RADAU_RIGHT', 'RADAU-MIDDLE', 'GAUS', 'LOBATTO2', 'Radau-Right', 'RADAU-RIGHT '],
    node_type=['foo', 'LEGENDRE2', 'CHEBY', 'CHEBY-5', 'legendre', 'EQUI', 'EQUID ', 'Equid', 'CHEBY_1'],
    QI=['foo', 'LU3', 'MIN-SR', 'IE2', 'lu', 'Lu', 'MIN-SR-X', 'IEPAR', 'IEpar2', 'LU '],
    initial_guess=['foo', 'spread2', 'Spread', 'zeros', 'copy ', 'random2', 'spread_', 'SPREAD'],
    predict_type=['foo', 'fine_only2', 'Fine_only', 'pfasst_burn_in', 'libpfasst', 'pfasst_burnin ', 'fine-only'],
)


def near_miss(rng, param):
    lst = NEAR_MISS[param]
    return lst[int(rng.integers(0, len(lst)))]


def run_fault(case, r):
    from pySDC.implementations.controller_classes.controller_nonMPI import controller_nonMPI

    rng = np.random.default_rng(case['seed'])
    f = case['fault']
    multi = f in ('no space transfer', 'bad predict_type ML', 'nsweeps coarse>1', 'PFASST GAUSS', 'PFASST RADAU-LEFT', 'PFASST mixed quad_type', 'odd iorder')
    spec = gen_valid(rng, nlev=int(rng.integers(2, 4)) if multi else None)
    d = materialize(spec)
    cp = dict(logger_level=50, dump_setup=False)
    procs = spec['procs']
    post = None
    nlev = spec['nlev']
    if f.startswith('drop ') and f != 'drop num_nodes':
        d.pop(f.split()[1])
    elif f == 'drop num_nodes':
        d['sweeper_params'].pop('num_nodes')
    elif f == 'no space transfer':
        d.pop('space_transfer_class')
    elif f == 'bad predict_type ML':
        cp['predict_type'] = near_miss(rng, 'predict_type')
    elif f == 'bad residual_type':
        d['level_params']['residual_type'] = near_miss(rng, 'residual_type')
    elif f == 'bad initial_guess':
        d['sweeper_params']['initial_guess'] = near_miss(rng, 'initial_guess')
    elif f == 'bad quad_type':
        d['sweeper_params']['quad_type'] = near_miss(rng, 'quad_type')
    elif f == 'bad node_type':
        d['sweeper_params']['node_type'] = near_miss(rng, 'node_type')
    elif f == 'bad QI':
        d['sweeper_params']['QI'] = near_miss(rng, 'QI')
    elif f == 'bad QE':
        from pySDC.implementations.sweeper_classes.imex_1st_order import imex_1st_order
        from pySDC.implementations.problem_classes.HeatEquation_ND_FD import heatNd_forced

        d['sweeper_class'] = imex_1st_order
        d['problem_class'] = heatNd_forced
        d['sweeper_params']['QE'] = near_miss(rng, 'QI')
    elif f == 'nsweeps coarse>1':
        d['level_params']['nsweeps'] = [1] * (nlev - 1) + [2]
    elif f == 'PFASST GAUSS':
        procs = max(2, procs)
        d['sweeper_params']['quad_type'] = 'GAUSS'
    elif f == 'PFASST RADAU-LEFT':
        procs = max(2, procs)
        d['sweeper_params']['quad_type'] = 'RADAU-LEFT'
    elif f == 'PFASST mixed quad_type':
        # the quadrature type stated per level: one level without the right end point is enough (uend^k = u_M^k is used on every level)
        procs = max(2, procs)
        good, bad = ['RADAU-RIGHT', 'LOBATTO'], ['GAUSS', 'RADAU-LEFT']
        q = [good[int(rng.integers(0, 2))] for _ in range(nlev)]
        q[int(rng.integers(0, nlev))] = bad[int(rng.integers(0, 2))]
        d['sweeper_params']['quad_type'] = q
        d['sweeper_params']['QI'] = 'IE'
        f = f'{f}: {q}'
    elif f == 'dtype_u key':
        d['dtype_u'] = 1
    elif f == 'dtype_f key':
        d['dtype_f'] = 1
    elif f == 'predict key':
        cp['predict'] = True
    elif f == 'odd iorder':
        d['space_transfer_params'] = dict(iorder=3, rorder=2)
    elif f == 'level.status.foo':
        post = lambda c: setattr(c.MS[0].levels[0].status, 'foo', 1)  # noqa
    elif f == 'level.params.foo':
        post = lambda c: setattr(c.MS[0].levels[0].params, 'foo', 1)  # noqa
    elif f == 'step.status.foo':
        post = lambda c: setattr(c.MS[0].status, 'foo', 1)  # noqa
    elif f == 'step.params.foo':
        post = lambda c: setattr(c.MS[0].params, 'foo', 1)  # noqa
    elif f == 'sweep.params.foo':
        post = lambda c: setattr(c.MS[0].levels[0].sweep.params, 'foo', 1)  # noqa
    elif f == 'controller.params.foo':
        post = lambda c: setattr(c.params, 'foo', 1)  # noqa
    elif f == 'attribute of a sibling class':
        # names that ARE declared - for another frozen class of the same kind (step status vs level status, step vs level vs
        # sweeper vs controller parameters): declared-ness must not leak between classes
        table = [('level.status', lambda c: c.MS[0].levels[0].status, ['restart', 'restarts_in_a_row', 'iter', 'done', 'slot', 'force_done', 'stage', 'prev_done', 'time_size']),
                 ('step.status', lambda c: c.MS[0].status, ['residual', 'unlocked', 'updated', 'sweep', 'dt_new', 'time']),
                 ('level.params', lambda c: c.MS[0].levels[0].params, ['maxiter', 'num_nodes', 'QI']),
                 ('step.params', lambda c: c.MS[0].params, ['dt', 'restol', 'nsweeps', 'residual_type']),
                 ('sweep.params', lambda c: c.MS[0].levels[0].sweep.params, ['dt', 'maxiter', 'restol']),
                 ('controller.params', lambda c: c.params, ['dt', 'maxiter', 'QI', 'num_nodes'])]
        # names that convergence controllers register at run time (BasicRestarting is always loaded) are the likeliest to leak
        table += [('level.status', lambda c: c.MS[0].levels[0].status, ['restart', 'restarts_in_a_row'])] * 6
        where, getter, names_ = table[int(rng.integers(0, len(table)))]
        nm_ = names_[int(rng.integers(0, len(names_)))]
        f = f'{f}: {where}.{nm_}'
        post = lambda c, getter=getter, nm_=nm_: setattr(getter(c), nm_, 1)  # noqa
    elif f == 'level.foo':
        post = lambda c: setattr(c.MS[0].levels[0], 'foo', 1)  # noqa
    elif f == 'step.foo':
        post = lambda c: setattr(c.MS[0], 'foo', 1)  # noqa
    elif f == 'prob.nvars=':
        post = lambda c: setattr(c.MS[0].levels[0].prob, 'nvars', (3,))  # noqa
    elif f == 'prob.nu=':
        post = lambda c: setattr(c.MS[0].levels[0].prob, 'nu', 0.123)  # noqa
    r.key = f"fault/{f}/{nlev}/{procs}/{case['seed'] % 1000}"
    rejected = None
    if post is not None:
        # assignment faults: the assignment itself must be refused (a crash somewhere later in the run does not count)
        ctrl = controller_nonMPI(procs, cp, d)
        try:
            post(ctrl)
        except BaseException as e:  # noqa
            rejected = type(e).__name__
    elif f.startswith('PFASST'):
        # "PFASST without the right end point as node is rejected at construction"
        try:
            ctrl = controller_nonMPI(procs, cp, d)
        except BaseException as e:  # noqa
            rejected = type(e).__name__
    else:
        try:
            ctrl = controller_nonMPI(procs, cp, d)
            P = ctrl.MS[0].levels[0].prob
            ctrl.run(P.u_exact(0.0), 0.0, 0.05 * procs)
        except BaseException as e:  # noqa
            rejected = type(e).__name__
    r.check(rejected is not None, 'invalid-setup-rejected', f'fault {f!r} on a {nlev}-level, {procs}-step description was silently accepted (construction and first run completed): controller_params {cp}, description {d}')
    r.nontrivial = True
    r.observe('fault', f'{f.split(":")[0]}:{rejected}')
    r.sample = dict(fault=f, rejected_with=rejected, nlev=nlev, procs=procs)


def run_case(case):
    r = Result(case)
    dict(valid=run_valid, cc=run_cc, fault=run_fault)[case['kind']](case, r)
    r.count('kind:' + case['kind'])
    return r


def finalize(agg):
    out = []
    c = agg['counters']
    for k in ('oracle:level-gets-stated-parameter', 'oracle:number-of-levels', 'oracle:transfer-gets-stated-parameter', 'oracle:invalid-setup-rejected', 'oracle:ascending-control-order', 'oracle:user-parameters-win', 'oracle:controllers-instantiated-once'):
        if c.get(k, 0) == 0:
            out.append(f'monitor {k} never evaluated')
    if len(agg['seen'].get('fault', ())) < len(FAULTS):
        out.append('not every catalogue fault was exercised')
    return out
