"""C02 — one sweep equals one preconditioned Picard iteration of the sweeper's matrices.

A real Level (built through Step) is loaded with arbitrary node values, consistent right-hand sides and an
optional tau; update_nodes / integrate / compute_end_point of the real sweeper are called and the node values read
back are compared with the algebraic block iteration built from qmat's Q and QDelta (dense solve).
"""

import numpy as np

from vf.core import Result

PROPERTY = 'C02'
LEVEL = 'exploration'
TECHNIQUE = 'differential monitor: real sweeper on a loaded level vs dense block-system reference model (qmat coefficients)'
RULE = (
    'one case = one loaded level (sweeper family, QDelta names, node family/type/count, dt, dense random real/complex operator, '
    'time-dependent forcing, arbitrary node values, tau on/off, end-point mode, sweep indices k for k-dependent generators) or one '
    'Runge-Kutta / IMEX-RK / Verlet class on a dense problem; non-trivial = sweeper constructed, update_nodes ran and the node-value oracle was evaluated; '
    'distinct by (family, names, nodes, tau, end-point mode, dtype, k list)'
)
ASSUMPTIONS = [
    'qmat is trusted for Q and QDelta coefficients; the RK stage model uses the class own Butcher tableau (its order is judged by C04)',
    'tolerance 1e-12*cond(block matrix)*scale, cases with cond > 1e7 are skipped and counted',
    'harness problems (dense linear with forcing) are workload code under /verif',
    'Boris, Runge-Kutta-Nystrom, multistep and DAE sweepers are covered by separate sub-checks only where listed in evidence.counters',
]
EXHAUSTIVE = {'quick': False, 'thorough': False}

FAMILIES = ['impl', 'expl', 'imex', 'multi', 'mass']


def qd_names():
    from qmat.qdelta import QDELTA_GENERATORS

    return sorted(QDELTA_GENERATORS)


def cases(tier, seed):
    rng = np.random.default_rng(seed + 202)
    names = qd_names()
    from vf.levelkit import NODE_TYPES, QUAD_TYPES

    n_sdc = 1200 if tier == 'quick' else 24000
    cs = []
    from vf.ref import sdc as ref

    g3 = ref.coll(3)
    strict = [nm for nm in names if np.allclose(np.triu(ref.qdelta_explicit(g3, nm, 1)[0], 0), 0)]
    lower = [nm for nm in names if np.allclose(np.triu(ref.qdelta(g3, nm, 1), 1), 0)]
    for i in range(n_sdc):
        fam = FAMILIES[i % len(FAMILIES)]
        qt = QUAD_TYPES[int(rng.integers(0, 4))] if rng.random() < 0.7 else 'RADAU-RIGHT'
        if fam == 'mass':
            qt = 'RADAU-RIGHT' if rng.random() < 0.7 else 'LOBATTO'
        nt = NODE_TYPES[int(rng.integers(0, 6))] if rng.random() < 0.5 else 'LEGENDRE'
        M = int(rng.integers(1, 6)) if rng.random() < 0.85 else int(rng.integers(6, 8))
        if qt in ('LOBATTO', 'RADAU-LEFT'):
            M = max(M, 2)
        c = dict(
            kind='sdc', fam=fam, qt=qt, nt=nt, M=M, n=int(rng.integers(1, 5)), cplx=bool(rng.random() < 0.3),
            dtexp=float(rng.uniform(-3, 1)), tau=bool(rng.random() < 0.5), coll_update=bool(rng.random() < 0.4),
            q1=(lower if rng.random() < 0.9 else names)[int(rng.integers(0, len(lower)))],
            q2=((lower if fam == 'multi' else strict) if rng.random() < 0.9 else names)[int(rng.integers(0, len(lower if fam == 'multi' else strict)))],
            t0=float(rng.uniform(-2, 5)), seed=int(rng.integers(0, 2**31)), ks=[int(x) for x in rng.integers(1, 5, size=int(rng.integers(1, 4)))],
            forcing=bool(rng.random() < 0.7), _cost=M * M,
        )
        if rng.random() < 0.12 and fam != 'mass':
            c['dtexp'] = float(rng.uniform(-11, -6))
            c['stiff'] = float(10 ** (-c['dtexp']) * rng.uniform(0.3, 3))
        cs.append(c)
    # every QDelta name at least once per implicit/explicit role on the default node set
    for nm in names:
        for fam in ('impl', 'expl', 'imex'):
            cs.append(dict(kind='sdc', fam=fam, qt='RADAU-RIGHT', nt='LEGENDRE', M=3, n=3, cplx=False, dtexp=-1.0, tau=True, coll_update=False,
                           q1=nm, q2=nm, t0=0.3, seed=int(rng.integers(0, 2**31)), ks=[1, 2, 3], forcing=True, _cost=9))
    # Runge-Kutta classes (found by introspection in the worker; here by index so the list is complete whatever exists)
    reps = 2 if tier == 'quick' else 20
    for idx in range(60):
        for rep in range(reps):
            cs.append(dict(kind='rk', idx=idx, n=int(rng.integers(1, 5)), cplx=bool(rng.random() < 0.3), dtexp=float(rng.uniform(-2.5, 0)),
                           t0=float(rng.uniform(-2, 5)), seed=int(rng.integers(0, 2**31)), forcing=bool(rng.random() < 0.7), _cost=20))
    for i in range(60 if tier == 'quick' else 1200):
        qt = ['LOBATTO', 'RADAU-RIGHT', 'GAUSS', 'RADAU-LEFT'][i % 4]
        M = int(rng.integers(2, 6))
        cs.append(dict(kind='verlet', qt=qt, nt='LEGENDRE' if i % 3 else 'EQUID', M=M, dtexp=float(rng.uniform(-2, 0)), tau=bool((i // 4) % 2),
                       coll_update=bool(rng.random() < 0.4), t0=float(rng.uniform(0, 2)), seed=int(rng.integers(0, 2**31)), _cost=M * M))
    for i in range(90 if tier == 'quick' else 2400):
        which = ['fully', 'semi', 'fully', 'semi', ['BackwardEulerDAE', 'TrapezoidalRuleDAE', 'EDIRK4DAE', 'DIRK43_2DAE'][(i // 5) % 4]][i % 5]
        cs.append(dict(kind='dae', which=which, n=int(rng.integers(1, 4)), M=int(rng.integers(1, 6)), qt=['RADAU-RIGHT', 'RADAU-RIGHT', 'GAUSS', 'LOBATTO'][int(rng.integers(0, 4))],
                       nt=NODE_TYPES[int(rng.integers(0, len(NODE_TYPES)))], QI=lower[int(rng.integers(0, len(lower)))] if rng.random() < 0.6 else ['IE', 'LU', 'MIN-SR-S', 'MIN-SR-FLEX'][int(rng.integers(0, 4))],
                       k=int(rng.integers(1, 5)), dtexp=float(rng.uniform(-2.5, -0.3)), t0=float(rng.uniform(-1, 3)), seed=int(rng.integers(0, 2**31)), _cost=6))
    for i in range(24 if tier == 'quick' else 600):
        cs.append(dict(kind='multistep', cls=['AdamsBashforthExplicit1Step', 'BackwardEuler', 'AdamsMoultonImplicit1Step', 'AdamsMoultonImplicit2Step'][i % 4], n=int(rng.integers(1, 5)), cplx=bool(rng.random() < 0.3),
                       nsteps=int(rng.integers(1, 9)), dtexp=float(rng.uniform(-2.5, -0.5)), t0=float(rng.uniform(-2, 5)), seed=int(rng.integers(0, 2**31)), forcing=bool(rng.random() < 0.7), _cost=4))
    for i in range(20 if tier == 'quick' else 600):
        cs.append(dict(kind='boris', M=int(rng.integers(2, 6)), qt=['LOBATTO', 'RADAU-RIGHT'][i % 2], nt=['LEGENDRE', 'LEGENDRE', 'EQUID', 'CHEBY-2'][int(rng.integers(0, 4))], dtexp=float(rng.uniform(-1.5, -0.3)),
                       nsweeps=int(rng.integers(8, 16)), seed=int(rng.integers(0, 2**31)), _cost=10))
        if i % 3 == 2:
            # the Picard configuration of the second-order sweeper (QT = Qx = 0): the only other pair of names whose node-to-node
            # structure the Boris velocity update supports
            cs[-1].update(qd='PIC', nsweeps=cs[-1]['nsweeps'] + 10)
    alphas = [0.3, 1e-1, 1e-2, 1e-3, 1e-4, 1e-6, 1e-8]
    for i in range(60 if tier == 'quick' else 1200):
        cs.append(dict(kind='paradiag', M=int(rng.integers(1, 6)), n=int(rng.integers(1, 5)), L=int(rng.integers(1, 13)), alpha=float(alphas[int(rng.integers(0, len(alphas)))]),
                       ident=bool(rng.random() < 0.3), ignore_ic=bool(rng.random() < 0.5), imex=bool(rng.random() < 0.4), dtexp=float(rng.uniform(-2.5, 0)), reconf=int(rng.integers(1, 4)),
                       seed=int(rng.integers(0, 2**31)), _cost=8))
    return cs


def rk_classes():
    import inspect

    import pySDC.implementations.sweeper_classes.Runge_Kutta as RKm

    out = []
    for name, cls in sorted(inspect.getmembers(RKm, inspect.isclass)):
        if issubclass(cls, RKm.RungeKutta) and cls not in (RKm.RungeKutta, RKm.RungeKuttaIMEX) and cls.__module__ == RKm.__name__:
            if getattr(cls, 'matrix', None) is not None:
                out.append(cls)
    return out


def _prob(case, rng, need_B, mass=False):
    from vf.levelkit import rand_matrix

    n, cplx = case['n'], case['cplx']
    A = rand_matrix(rng, n, 'stable', cplx)
    B = rand_matrix(rng, n, 'any', cplx, scale=0.7)
    if case.get('stiff'):
        # tiny step with an operator of size 1/dt: dt*A stays O(1) while dt*QDelta entries fall below any absolute threshold
        A, B = A * case['stiff'], B * case['stiff']
    pp = dict(A=A)
    if need_B:
        pp['B'] = B
    if case.get('forcing'):
        pp.update(c0=rng.standard_normal(n) + (1j * rng.standard_normal(n) if cplx else 0), c1=rng.standard_normal(n) + (0j if cplx else 0), w=float(rng.uniform(0.5, 3)))
    if mass:
        Mm = np.eye(n) + 0.3 * rand_matrix(rng, n, 'any', False)
        pp['Mm'] = Mm
    return pp


def run_sdc(case, r):
    from pySDC.implementations.sweeper_classes.explicit import explicit
    from pySDC.implementations.sweeper_classes.generic_implicit import generic_implicit
    from pySDC.implementations.sweeper_classes.imex_1st_order import imex_1st_order
    from pySDC.implementations.sweeper_classes.imex_1st_order_mass import imex_1st_order_mass
    from pySDC.implementations.sweeper_classes.multi_implicit import multi_implicit

    from vf import harness_problems as hp
    from vf.levelkit import arr, full_f, load_level, make_step, read_u
    from vf.ref import sdc as ref

    rng = np.random.default_rng(case['seed'])
    fam, M, qt, nt = case['fam'], case['M'], case['qt'], case['nt']
    n = case['n']
    r.key = f"{fam}/{case['q1']}/{case['q2']}/{nt}/{qt}/{M}/tau{case['tau']}/cu{case['coll_update']}/c{case['cplx']}/k{case['ks']}"
    dt = 10 ** case['dtexp']
    swp = dict(num_nodes=M, quad_type=qt, node_type=nt, do_coll_update=case['coll_update'])
    pp = _prob(case, rng, need_B=fam in ('imex', 'multi', 'mass'), mass=fam == 'mass')
    if fam == 'impl':
        sw, pc, swp['QI'] = generic_implicit, hp.DenseLinear, case['q1']
    elif fam == 'expl':
        sw, pc, swp['QE'] = explicit, hp.DenseLinear, case['q2']
    elif fam == 'imex':
        sw, pc, swp['QI'], swp['QE'] = imex_1st_order, hp.DenseIMEX, case['q1'], case['q2']
    elif fam == 'multi':
        sw, pc, swp['Q1'], swp['Q2'] = multi_implicit, hp.DenseTwoComp, case['q1'], case['q2']
    else:
        sw, pc, swp['QI'], swp['QE'] = imex_1st_order_mass, hp.DenseMass, case['q1'], case['q2']
    try:
        gen = ref.coll(M, nt, qt)
    except Exception:  # noqa
        r.count('rule_rejected_by_qmat')
        gen = None
    try:
        S = make_step(pc, pp, sw, swp, dict(dt=dt))
    except Exception as e:  # noqa
        # acceptance of names / rules is observed, not prescribed
        r.count('rejected_at_construction')
        r.observe('rejected', f"{fam}:{case['q1'] if fam != 'expl' else ''}:{case['q2'] if fam in ('expl', 'imex', 'mass') else ''}:{type(e).__name__}")
        r.check(True, 'construction-observed', '')
        if gen is None:
            return
        # a rule qmat accepts with a name that is lower triangular (implicit role) / strictly lower (explicit role) must be accepted
        try:
            ok1 = fam == 'expl' or np.allclose(np.triu(ref.qdelta(gen, case['q1'], 1), 1), 0)
            ok2 = fam in ('impl', 'multi') or np.allclose(np.triu(ref.qdelta_explicit(gen, case['q2'], 1)[0], 0), 0)
            if fam == 'multi':
                ok2 = np.allclose(np.triu(ref.qdelta(gen, case['q2'], 1), 1), 0)
        except Exception:  # noqa
            return
        if fam == 'mass' and qt not in ('RADAU-RIGHT', 'LOBATTO'):
            return
        r.check(not (ok1 and ok2), 'accept-valid-names', f'{r.key}: construction rejected although qmat delivers triangular coefficients: {type(e).__name__}: {e}')
        return
    L = S.levels[0]
    P = L.prob
    A = np.asarray(pp['A'])
    B = np.asarray(pp.get('B', np.zeros_like(A)))
    dtype = complex if case['cplx'] else float
    Q = np.array(gen.Q, dtype=float)
    w = np.array(gen.weights, dtype=float)
    nodes = np.array(gen.nodes, dtype=float)
    t0 = case['t0']
    U = rng.standard_normal((M + 1, n)).astype(dtype)
    if case['cplx']:
        U = U + 1j * rng.standard_normal((M + 1, n))
    tau = None
    if case['tau']:
        tau = rng.standard_normal((M, n)).astype(dtype) * 0.3
    G = ref.G_nodes(P.g, t0, dt, nodes, n, dtype)
    right = qt in ('LOBATTO', 'RADAU-RIGHT')
    for k in case['ks']:
        load_level(L, t0, U, tau)
        L.sweep.updateVariableCoeffs(k)
        # reference matrices for this k
        try:
            if fam in ('impl',):
                QD = ref.qdelta(gen, case['q1'], k)
                lhs = np.eye(M * n) - dt * np.kron(QD, A)
            elif fam == 'expl':
                QD, _ = ref.qdelta_explicit(gen, case['q2'], k)
                lhs = np.eye(M * n) - dt * np.kron(QD, A)
            elif fam in ('imex', 'mass'):
                QI = ref.qdelta(gen, case['q1'], k)
                QE, dE = ref.qdelta_explicit(gen, case['q2'], k)
                lhs = np.eye(M * n) - dt * np.kron(QI, A) - dt * np.kron(QE, B)
            else:
                Q1 = ref.qdelta(gen, case['q1'], k)
                Q2 = ref.qdelta(gen, case['q2'], k)
                lhs = np.eye(M * n) - dt * np.kron(Q1, A)
        except Exception as e:  # noqa
            r.incon(f'reference coefficients failed for {r.key}: {e}')
            return
        cond = np.linalg.cond(lhs)
        if fam == 'multi':
            cond = max(cond, np.linalg.cond(np.eye(M * n) - dt * np.kron(Q2, B)))
        if fam == 'mass':
            cond = np.linalg.cond(np.kron(np.eye(M), pp['Mm']) - dt * np.kron(QI, A) - dt * np.kron(QE, B))
        if not np.isfinite(cond) or cond > 1e7:
            r.count('skipped_ill_conditioned')
            continue
        # ---- integrate() on the loaded data
        Fold = np.array([full_f(L.f[m]) for m in range(1, M + 1)])
        got_int = np.array([arr(x) for x in L.sweep.integrate()])
        exp_int = ref.integrate(Q, dt, Fold)
        sc_int = max(1.0, float(np.max(np.abs(exp_int))), dt * float(np.max(np.abs(Fold))) * float(np.max(np.sum(np.abs(Q), axis=1))))
        e = float(np.max(np.abs(got_int - exp_int)))
        r.check(e <= 1e-13 * sc_int * M, 'integrate', f'{r.key}: integrate() differs from dt*Q*F(U) by {e:.3e}')
        # ---- update_nodes
        u0 = U[0]
        Uold = U[1:]
        # the mass-matrix sweeper has two forms: on the finest level u0 enters mass-weighted, on coarser levels (level_index > 0)
        # it is the restricted, already weighted value and enters as it is; every second k is swept as a coarser level
        as_coarse = fam == 'mass' and k % 2 == 0
        if as_coarse:
            keep_index = L.level_index
            L.level_index = 1 + k % 3
            r.count('mass_sweeps_as_coarse_level')
        try:
            L.sweep.update_nodes()
        finally:
            if as_coarse:
                L.level_index = keep_index
        got = read_u(L)
        if fam == 'impl' or fam == 'expl':
            exp = ref.sweep_implicit(Q, QD, A, dt, u0, Uold, G, tau)
        elif fam == 'imex':
            exp = ref.sweep_imex(Q, QI, QE, A, B, dt, u0, Uold, G, tau)
        elif fam == 'multi':
            exp = ref.sweep_multi_implicit(Q, Q1, Q2, A, B, dt, u0, Uold, G, tau)
        else:
            exp = ref.sweep_imex_mass(Q, QI, QE, dE, A, B, np.asarray(pp['Mm']), dt, u0, Uold, G, None, tau, fine=not as_coarse)
        scale = max(1.0, float(np.max(np.abs(exp))), float(np.max(np.abs(U))))
        e = float(np.max(np.abs(got[1:] - exp)))
        tol = 1e-12 * max(cond, 10.0) * scale
        mech = None
        if e > tol and fam == 'multi' and (ref.kdependent(gen, case['q1']) or ref.kdependent(gen, case['q2'])):
            # known mechanism: multi_implicit keeps the Q1/Q2 it built at construction (k=None); updateVariableCoeffs only refreshes QI/QE
            exp0 = ref.sweep_multi_implicit(Q, ref.qdelta(gen, case['q1'], None), ref.qdelta(gen, case['q2'], None), A, B, dt, u0, Uold, G, tau)
            if float(np.max(np.abs(got[1:] - exp0))) <= tol:
                mech = 'multi-implicit-kdependent-coeffs-never-refreshed'
        r.check(e <= tol, 'update-nodes', f'{r.key} k={k} dt={dt:.3g}: node values after update_nodes differ from the block iteration by {e:.3e} (tol {tol:.1e})', mech=mech, k=k)
        r.check(np.array_equal(got[0], U[0]), 'u0-untouched', f'{r.key}: update_nodes changed u[0]')
        r.nontrivial = True
        # ---- f consistent with new u
        Fnew_exp = np.array([A @ got[m + 1] + B @ got[m + 1] + G[m] for m in range(M)]) if fam != 'impl' and fam != 'expl' else np.array([A @ got[m + 1] + G[m] for m in range(M)])
        Fnew = np.array([full_f(L.f[m]) for m in range(1, M + 1)])
        e = float(np.max(np.abs(Fnew - Fnew_exp)))
        r.check(e <= 1e-12 * max(1.0, float(np.max(np.abs(Fnew_exp)))), 'f-consistent', f'{r.key}: f at nodes is not F(u_new, t_m) after the sweep ({e:.3e})')
        # ---- end point
        if fam == 'mass' and not (right and not case['coll_update']):
            try:
                L.sweep.compute_end_point()
                r.check(False, 'end-point', f'{r.key}: mass sweeper delivered an end point although u_M != u_end is documented as unsupported')
            except NotImplementedError:
                r.count('mass_endpoint_notimplemented')
        else:
            L.sweep.compute_end_point()
            uend = arr(L.uend)
            if right and not case['coll_update']:
                exp_end = got[-1]
                mode = 'copy'
            else:
                exp_end = ref.end_point(u0, dt, w, Fnew, tau[-1] if tau is not None else None)
                mode = 'quadrature'
            e = float(np.max(np.abs(uend - exp_end)))
            r.check(e <= 1e-13 * max(1.0, float(np.max(np.abs(exp_end)))) * (1 + M), 'end-point', f'{r.key}: end point ({mode}) differs by {e:.3e}')
            r.check(not np.shares_memory(np.asarray(L.uend), np.asarray(L.u[-1])), 'end-point-copy', f'{r.key}: uend aliases the last node')
            r.observe('endpoint_mode', mode)
        r.observe('family', fam)
        r.observe('names', f"{fam}:{case['q1']}:{case['q2']}")
        r.observe('rule', f'{nt}/{qt}/{M}')
    r.sample = dict(case={k: v for k, v in case.items() if not k.startswith('_')})


def run_rk(case, r):
    from vf import harness_problems as hp
    from vf.levelkit import arr, full_f, make_step, rand_matrix
    from vf.ref import sdc as ref
    import pySDC.implementations.sweeper_classes.Runge_Kutta as RKm

    classes = rk_classes()
    if case['idx'] >= len(classes):
        r.check(True, 'noop', '')
        r.count('rk_index_beyond_classes')
        return
    cls = classes[case['idx']]
    rng = np.random.default_rng(case['seed'])
    n = case['n']
    imex = issubclass(cls, RKm.RungeKuttaIMEX)
    dtype = complex if case['cplx'] else float
    pp = _prob(case, rng, need_B=True)
    dt = 10 ** case['dtexp']
    t0 = case['t0']
    r.key = f'rk/{cls.__name__}/c{case["cplx"]}/f{case.get("forcing")}/{case["seed"] % 7}'
    explicit_tableau = not np.any(np.diag(np.array(cls.matrix, dtype=float)) != 0)
    pc = hp.DenseIMEX if (imex or (explicit_tableau and case['seed'] % 2)) else hp.DenseLinear
    if pc is hp.DenseLinear:
        pp.pop('B')
    S = make_step(pc, pp, cls, {}, dict(dt=dt, restol=-1))
    L = S.levels[0]
    P = L.prob
    A = np.asarray(pp['A'])
    B = np.asarray(pp.get('B', np.zeros_like(A)))
    u0 = rng.standard_normal(n).astype(dtype)
    L.status.time = t0
    L.u[0] = P.u_init
    L.u[0][:] = u0
    L.f[0] = P.eval_f(L.u[0], t0)
    L.status.sweep = 1
    L.sweep.predict()
    L.sweep.update_nodes()
    L.sweep.compute_end_point()
    # ---- reference from the class' own tableau
    AI = np.array(cls.matrix, dtype=float)
    s = AI.shape[0]
    c = np.array(cls.nodes, dtype=float)
    wts = np.array(cls.weights, dtype=float)
    G = ref.G_nodes(P.g, t0, dt, c, n, dtype)
    if imex:
        AE = np.array(cls.matrix_explicit, dtype=float)
        wE = np.array(cls.weights_explicit if cls.weights_explicit is not None else cls.weights, dtype=float)
        lhs = np.eye(s * n) - dt * np.kron(AI, A) - dt * np.kron(AE, B)
        rhs = np.tile(u0, s) + dt * (AE @ G).reshape(-1)
    else:
        AE, wE = AI, wts
        lhs = np.eye(s * n) - dt * np.kron(AI, A + B)
        if pc is hp.DenseIMEX:
            # plain RK on an IMEX-typed problem: implicit solves only invert (I - a A); the explicit part enters via the full f
            # which makes the stage equations nonlinear-implicit only in A: U_m = u0 + dt sum_{j<m} a_mj F_j + dt a_mm (A U_m) -> F_m full.
            # This is NOT the RK method applied to the full f unless the tableau is explicit; restrict the comparison accordingly.
            if np.any(np.diag(AI) != 0):
                r.count('rk_skipped_implicit_on_imex_problem')
                r.check(True, 'noop', '')
                return
        rhs = np.tile(u0, s) + dt * (AI @ G).reshape(-1)
    cond = np.linalg.cond(lhs)
    if cond > 1e7:
        r.count('skipped_ill_conditioned')
        r.check(True, 'noop', '')
        return
    Uref = np.linalg.solve(lhs, rhs).reshape(s, n)
    Fi = np.array([A @ Uref[m] for m in range(s)])
    Fe = np.array([B @ Uref[m] + G[m] for m in range(s)])
    if not imex:
        Ffull = Fi + Fe
    got = np.array([arr(L.u[m]) for m in range(1, s + 1)])
    scale = max(1.0, float(np.max(np.abs(Uref))))
    e = float(np.max(np.abs(got - Uref)))
    r.check(e <= 1e-12 * max(cond, 10) * scale, 'rk-stages', f'{r.key}: stage values differ from the Butcher stage equations by {e:.3e}')
    emb = cls.is_embedded()
    w1 = wts[0] if emb else wts
    if imex:
        w1E = wE[0] if wE.ndim == 2 else wE
        exp_end = u0 + dt * (w1 @ Fi + w1E @ Fe)
    else:
        exp_end = u0 + dt * (w1 @ (Fi + Fe))
    e = float(np.max(np.abs(arr(L.uend) - exp_end)))
    r.check(e <= 1e-12 * max(cond, 10) * scale, 'rk-end', f'{r.key}: end value differs from u0+dt*b^T F by {e:.3e}')
    if emb:
        w2 = wts[1]
        if imex:
            w2E = wE[1] if wE.ndim == 2 else wE
            exp2 = u0 + dt * (w2 @ Fi + w2E @ Fe)
        else:
            exp2 = u0 + dt * (w2 @ (Fi + Fe))
        e = float(np.max(np.abs(arr(L.sweep.u_secondary) - exp2)))
        r.check(e <= 1e-12 * max(cond, 10) * scale, 'rk-secondary', f'{r.key}: secondary (embedded) value differs from u0+dt*bhat^T F by {e:.3e}')
    # integrate() over the stages: dt*(Q_impl F_impl + Q_expl F_expl) = U_m - u0 (stage form) with the class' own tableaux
    integ = L.sweep.integrate()
    got_int = np.array([arr(x) for x in integ])
    # (with the right-hand sides the sweeper has stored: stiffly accurate schemes leave the last one unevaluated on purpose)
    if imex:
        Fi_s = np.array([arr(L.f[m].impl) for m in range(1, s + 1)])
        Fe_s = np.array([arr(L.f[m].expl) for m in range(1, s + 1)])
        exp_int = dt * (AI @ Fi_s + AE @ Fe_s)
    else:
        Ff_s = np.array([full_f(L.f[m]) for m in range(1, s + 1)])
        exp_int = dt * (AI @ Ff_s)
    if got_int.shape == exp_int.shape:
        e = float(np.max(np.abs(got_int - exp_int)))
        r.check(e <= 1e-12 * max(cond, 10) * scale, 'integrate', f'{r.key}: integrate() differs from dt*(Q F) over the stages by {e:.3e}')
    else:
        r.check(False, 'integrate', f'{r.key}: integrate() returned {got_int.shape}, expected {exp_int.shape}')
    r.check(np.array_equal(arr(L.u[0]), u0), 'u0-untouched', f'{r.key}: RK sweep changed u[0]')
    r.nontrivial = True
    r.observe('rk_class', cls.__name__)
    r.sample = dict(case={k: v for k, v in case.items() if not k.startswith('_')}, cls=cls.__name__)


def run_verlet(case, r):
    """velocity-Verlet SDC on pySDC's harmonic oscillator (particles data type): node-by-node documented form
    with Qx = QE.QT + 1/2 QE∘QE, QT = 1/2 (QI+QE), QQ = Q.Q (Lobatto-IIIA/B trick on Legendre-Lobatto)."""
    from pySDC.implementations.problem_classes.HarmonicOscillator import harmonic_oscillator
    from pySDC.implementations.sweeper_classes.verlet import verlet

    from vf.levelkit import make_step
    from vf.ref import sdc as ref

    rng = np.random.default_rng(case['seed'])
    M, qt, nt = case['M'], case['qt'], case['nt']
    dt = 10 ** case['dtexp']
    kk = float(rng.uniform(0.5, 4))
    r.key = f'verlet/{nt}/{qt}/{M}/cu{case["coll_update"]}/tau{case["tau"]}'
    S = make_step(harmonic_oscillator, dict(k=kk, mu=0.0, u0=(1.0, 0.0)), verlet, dict(num_nodes=M, quad_type=qt, node_type=nt, do_coll_update=case['coll_update']), dict(dt=dt))
    L = S.levels[0]
    P = L.prob
    gen = ref.coll(M, nt, qt)
    Q = np.zeros((M + 1, M + 1))
    Q[1:, 1:] = gen.Q
    w = np.array(gen.weights)
    QI = np.zeros((M + 1, M + 1))
    QI[1:, 1:] = ref.qdelta(gen, 'IE')
    QE = np.zeros((M + 1, M + 1))
    qe, de = ref.qdelta_explicit(gen, 'EE')
    QE[1:, 1:] = qe
    QE[1:, 0] = de
    QT = 0.5 * (QI + QE)
    Qx = QE @ QT + 0.5 * QE * QE
    if nt == 'LEGENDRE' and qt == 'LOBATTO':
        QQ = np.zeros((M + 1, M + 1))
        for m in range(M):
            for j in range(M):
                QQ[m + 1, j + 1] = w[j] * (1.0 - Q[j + 1, m + 1] / w[m])
        QQ = Q @ QQ
    else:
        QQ = Q @ Q
    t0 = case['t0']
    X = rng.standard_normal(M + 1)
    V = rng.standard_normal(M + 1)
    L.status.time = t0
    L.status.unlocked = True
    L.status.sweep = 1
    for m in range(M + 1):
        L.u[m] = P.dtype_u(P.init)
        L.u[m].pos[:] = X[m]
        L.u[m].vel[:] = V[m]
        L.f[m] = P.eval_f(L.u[m], t0)
    Fold = np.array([float(np.asarray(L.f[m]).ravel()[0]) for m in range(M + 1)])
    exp_force = -kk * X
    e = float(np.max(np.abs(Fold - exp_force)))
    if e > 1e-12:
        r.incon(f'harmonic oscillator force is not -k x ({e})')
        return
    # FAS correction (0-to-node, in position and velocity) as a coarse level of a hierarchy carries it
    TX, TV = np.zeros(M + 1), np.zeros(M + 1)
    if case['tau']:
        TX[1:], TV[1:] = 0.3 * rng.standard_normal(M), 0.3 * rng.standard_normal(M)
        for m in range(M):
            L.tau[m] = P.dtype_u(P.init, val=0.0)
            L.tau[m].pos[:] = TX[m + 1]
            L.tau[m].vel[:] = TV[m + 1]
        r.count('verlet_with_tau')
    L.sweep.update_nodes()
    xn = np.zeros(M + 1)
    vn = np.zeros(M + 1)
    fn = np.zeros(M + 1)
    xn[0], vn[0], fn[0] = X[0], V[0], Fold[0]
    for m in range(1, M + 1):
        xn[m] = X[0] + dt * sum(Q[m, j] for j in range(1, M + 1)) * V[0] + dt * dt * sum((QQ[m, j] - Qx[m, j]) * Fold[j] for j in range(1, M + 1)) + dt * dt * sum(Qx[m, j] * fn[j] for j in range(1, m)) + TX[m]
        fn[m] = -kk * xn[m]
        vn[m] = V[0] + dt * sum((Q[m, j] - QT[m, j]) * Fold[j] for j in range(1, M + 1)) + dt * sum(QT[m, j] * fn[j] for j in range(1, m + 1)) + TV[m]
    gx = np.array([float(np.asarray(L.u[m].pos).ravel()[0]) for m in range(M + 1)])
    gv = np.array([float(np.asarray(L.u[m].vel).ravel()[0]) for m in range(M + 1)])
    sc = max(1.0, np.max(np.abs(xn)), np.max(np.abs(vn)))
    e = max(float(np.max(np.abs(gx - xn))), float(np.max(np.abs(gv - vn))))
    r.check(e <= 1e-12 * sc * M, 'verlet-update', f'{r.key}: positions/velocities after update_nodes differ from the documented Verlet-SDC form by {e:.3e}')
    L.sweep.compute_end_point()
    right = qt in ('LOBATTO', 'RADAU-RIGHT')
    if right and not case['coll_update']:
        ex, ev = gx[-1], gv[-1]
    else:
        qQ = w @ Q[1:, 1:]
        ex = X[0] + dt * np.sum(w) * V[0] + dt * dt * float(qQ @ fn[1:]) + TX[M]
        ev = V[0] + dt * float(w @ fn[1:]) + TV[M]
    e = max(abs(float(np.asarray(L.uend.pos).ravel()[0]) - ex), abs(float(np.asarray(L.uend.vel).ravel()[0]) - ev))
    r.check(e <= 1e-12 * sc * M, 'verlet-end', f'{r.key}: end point differs by {e:.3e}')
    r.nontrivial = True
    r.observe('family', 'verlet')
    r.sample = dict(case={k: v for k, v in case.items() if not k.startswith('_')})


def run_boris(case, r):
    """Boris-SDC (second-order sweeper with the Boris trick) on the ideal Penning trap, whose force is linear in position and
    velocity: (a) the collocation solution of u' = A u (A extracted from the problem's own eval_f/build_f) is a fixed point of
    one sweep, (b) sweeps from the spread guess converge to it"""
    from pySDC.implementations.problem_classes.PenningTrap_3D import penningtrap
    from pySDC.implementations.sweeper_classes.boris_2nd_order import boris_2nd_order

    from vf.levelkit import make_step
    from vf.ref import sdc as ref

    rng = np.random.default_rng(case['seed'])
    wE = float(rng.uniform(1.0, 6.0))
    wB = float(rng.uniform(2.2, 6.0)) * wE
    pp = dict(omega_B=wB, omega_E=wE, u0=np.array([[10, 0, 0], [100, 0, 100], [1], [1]], dtype=object), nparts=1, sig=0.1)
    M, qt, dt = case['M'], case['qt'], 10 ** case['dtexp'] / wB
    qd = case.get('qd', 'default')
    r.key = f"boris/{qd}/{qt}/{case['nt']}/{M}/{case['seed'] % 1000}"
    tag = r.key + f' dt={dt:.3g}'
    try:
        gen = ref.coll(M, case['nt'], qt)
        swp = dict(num_nodes=M, quad_type=qt, node_type=case['nt'])
        if qd != 'default':
            swp.update(QI=qd, QE=qd)
        S = make_step(penningtrap, pp, boris_2nd_order, swp, dict(dt=dt))
    except Exception as e:  # noqa
        r.count('rejected_at_construction')
        r.check(True, 'noop', '')
        return
    L = S.levels[0]
    P = L.prob
    twin = penningtrap(**pp)

    def mk(prob, v):
        u = prob.dtype_u(prob.init)
        u.pos[:, 0], u.vel[:, 0] = v[:3], v[3:]
        u.q[:], u.m[:] = 1.0, 1.0
        return u

    def F(v, t=0.0):
        u = mk(twin, v)
        a = twin.build_f(twin.eval_f(u, t), u, t)
        return np.concatenate([v[3:], np.asarray(a)[:, 0]])

    with np.errstate(all='ignore'):
        f0 = F(np.zeros(6))
        A = np.array([F(e) - f0 for e in np.eye(6)]).T
        # the trap force must be linear for the dense oracle: probe it
        probe = rng.standard_normal(6)
        lin = float(np.max(np.abs(F(probe) - (A @ probe + f0))))
    r.check(lin <= 1e-9 * (1 + float(np.max(np.abs(A @ probe)))), 'workload-linear', f'{tag}: the trap force is not linear in (x, v): {lin:.3e}')
    Q, nodes = np.array(gen.Q), np.array(gen.nodes)
    u0 = rng.standard_normal(6)
    U = np.linalg.solve(np.eye(6 * M) - dt * np.kron(Q, A), np.tile(u0, M) + dt * np.kron(Q @ np.ones(M), f0)).reshape(M, 6)
    L.status.time = 0.0
    L.status.unlocked = True

    def load(vals):
        L.u[0] = mk(P, u0)
        L.f[0] = P.eval_f(L.u[0], 0.0)
        for m in range(M):
            L.u[m + 1] = mk(P, vals[m])
            L.f[m + 1] = P.eval_f(L.u[m + 1], dt * nodes[m])

    def read():
        return np.array([np.concatenate([np.asarray(L.u[m + 1].pos)[:, 0], np.asarray(L.u[m + 1].vel)[:, 0]]) for m in range(M)])

    with np.errstate(all='ignore'):
        load(U)
        L.sweep.update_nodes()
        after = read()
        sc = max(1.0, float(np.max(np.abs(U))))
        e = float(np.max(np.abs(after - U)))
        r.check(e <= 1e-10 * sc, 'update-nodes', f'{tag}: the collocation solution of the (linear) trap equations is not a fixed point of the Boris sweep: it moves by {e:.3e}')
        # (b) convergence from the spread guess
        load(np.tile(u0, (M, 1)))
        errs = []
        for k in range(case['nsweeps']):
            L.sweep.update_nodes()
            errs.append(float(np.max(np.abs(read() - U))))
    r.check(errs[-1] <= 1e-8 * sc or errs[-1] <= 1e-3 * errs[0], 'boris-sweeps-converge-to-collocation', f'{tag}: errors to the collocation solution over {len(errs)} sweeps: {[f"{x:.1e}" for x in errs[:8]]}')
    r.nontrivial = True
    r.observe('family', 'boris')
    r.count(f'boris_{qd}')
    r.sample = dict(case={k: v for k, v in case.items() if not k.startswith('_')}, errors=errs[:6])


def run_multistep(case, r):
    """linear multistep sweepers: a constant-step run on a dense linear problem with forcing follows the recurrence
    sum_i alpha_i u_{n-s+1+i} + u_{n+1} = dt * sum_i beta_i f_{n-s+1+i} + dt * beta_s f_{n+1} (start-up steps by the method the class names)"""
    import pySDC.implementations.sweeper_classes.Multistep as MS
    from pySDC.helpers.stats_helper import get_sorted
    from pySDC.implementations.controller_classes.controller_nonMPI import controller_nonMPI
    from pySDC.implementations.hooks.log_solution import LogSolution

    from vf import harness_problems as hp

    rng = np.random.default_rng(case['seed'])
    cls = getattr(MS, case['cls'])
    pp = _prob(case, rng, need_B=False)
    A, n = np.asarray(pp['A']), case['n']
    dt = 10 ** case['dtexp']
    nsteps = case['nsteps']
    r.key = f"multistep/{case['cls']}/{n}/{nsteps}"
    tag = r.key + f' dt={dt:.3g}'
    desc = dict(problem_class=hp.DenseLinear, problem_params=pp, sweeper_class=cls, sweeper_params={}, level_params=dict(dt=dt), step_params=dict(maxiter=1))
    ctrl = controller_nonMPI(1, dict(logger_level=50, dump_setup=False, hook_class=[LogSolution]), desc)
    P = ctrl.MS[0].levels[0].prob
    u0 = P.u_init
    u0[:] = rng.standard_normal(n) + (1j * rng.standard_normal(n) if case['cplx'] else 0)
    t0 = case['t0']
    uend, stats = ctrl.run(u0, t0, t0 + (nsteps - 0.5) * dt)
    got = [np.asarray(v).copy() for _, v in get_sorted(stats, type='u', sortby='time')]
    r.check(len(got) == nsteps, 'multistep-recurrence', f'{tag}: {len(got)} logged steps, expected {nsteps}')
    alpha, beta = list(cls.alpha), list(cls.beta)
    s_ = len(alpha)
    twin = hp.DenseLinear(**pp)

    def f(u, t):
        v = twin.u_init
        v[:] = u
        return np.asarray(twin.eval_f(v, t)).copy()

    def g(t):
        return f(np.zeros(n, dtype=np.asarray(u0).dtype), t)

    us, fs, ts = [np.asarray(u0).copy()], [f(np.asarray(u0), t0)], [t0]
    I = np.eye(n)
    for k in range(min(nsteps, len(got))):
        tn = ts[-1] + dt
        if len(us) < s_:
            # start-up: trapezoidal rule (the only shipped multi-step class says so)
            rhs = us[-1] + dt / 2 * fs[-1]
            unew = np.linalg.solve(I - dt / 2 * A, rhs + dt / 2 * g(tn))
        else:
            rhs = sum(-alpha[i] * us[len(us) - s_ + i] for i in range(s_)) + dt * sum(beta[i] * fs[len(fs) - s_ + i] for i in range(s_))
            unew = np.linalg.solve(I - dt * beta[-1] * A, rhs + dt * beta[-1] * g(tn)) if beta[-1] != 0 else rhs
        e = float(np.max(np.abs(got[k] - unew)))
        sc = max(1.0, float(np.max(np.abs(unew))))
        r.check(e <= 1e-11 * sc, 'multistep-recurrence', f'{tag}: step {k + 1} differs from the {s_}-step recurrence (alpha {alpha}, beta {beta}) by {e:.3e}')
        # follow the values the run actually produced, so that one wrong step is reported once
        us.append(got[k].copy())
        fs.append(f(got[k], tn))
        ts.append(tn)
    r.nontrivial = True
    r.observe('family', 'multistep')
    r.observe('multistep_class', case['cls'])
    r.sample = dict(case={k: v for k, v in case.items() if not k.startswith('_')})


def run_dae(case, r):
    """DAE project sweepers on a dense semi-explicit linear index-1 DAE: the stage equations the sweeper promises hold for the
    derivative/algebraic values it stores, the solution is u0 + dt Q U' and integrate() returns dt Q U' (reference Q, QDelta from qmat)"""
    from pySDC.projects.DAE.sweepers.fullyImplicitDAE import FullyImplicitDAE
    from pySDC.projects.DAE.sweepers.semiImplicitDAE import SemiImplicitDAE

    from vf import harness_problems as hp
    from vf.levelkit import make_step, rand_matrix
    from vf.ref import sdc as ref

    rng = np.random.default_rng(case['seed'])
    n, M, which = case['n'], case['M'], case['which']
    dt = 10 ** case['dtexp']
    t0 = case['t0']
    A11, A12, A21 = rand_matrix(rng, n, 'stable', False), rand_matrix(rng, n, 'any', False, scale=0.7), rand_matrix(rng, n, 'any', False, scale=0.7)
    A22 = np.eye(n) + 0.4 * rand_matrix(rng, n, 'any', False)
    pp = dict(A11=A11, A12=A12, A21=A21, A22=A22, c1=rng.standard_normal(n), c2=rng.standard_normal(n), w=float(rng.uniform(0.5, 3)))
    DAE = hp.make_dense_dae()
    r.key = f"dae/{which}/{case['QI']}/{case['nt']}/{case['qt']}/{M}/{n}/k{case['k']}"
    tag = r.key + f' dt={dt:.3g}'
    if which in ('fully', 'semi'):
        cls = FullyImplicitDAE if which == 'fully' else SemiImplicitDAE
        swp = dict(num_nodes=M, quad_type=case['qt'], node_type=case['nt'], QI=case['QI'])
        try:
            gen = ref.coll(M, case['nt'], case['qt'])
            QD = ref.qdelta(gen, case['QI'], case['k'])
            S = make_step(DAE, pp, cls, swp, dict(dt=dt))
        except Exception as e:  # noqa
            r.count('rejected_at_construction')
            r.observe('rejected', f"{which}:{case['QI']}:{case['qt']}:{type(e).__name__}")
            r.check(True, 'noop', '')
            return
        if np.any(np.abs(np.diag(QD)) < 1e-14) or not np.all(np.isfinite(QD)):
            r.count('singular_stage_system')  # a zero diagonal entry leaves the algebraic unknown undetermined
            r.check(True, 'noop', '')
            return
        L = S.levels[0]
        P = L.prob
        Q = np.array(gen.Q)
        nodes = np.array(gen.nodes)
        L.status.time = t0
        L.status.unlocked = True
        L.status.sweep = case['k']
        if ref.kdependent(gen, case['QI']):
            L.sweep.updateVariableCoeffs(case['k'])
        # arbitrary (not consistent) node values and derivative values
        u0y, u0z = rng.standard_normal(n), rng.standard_normal(n)
        L.u[0] = P.dtype_u(P.init)
        L.u[0].diff[:], L.u[0].alg[:] = u0y, u0z
        L.f[0] = P.dtype_f(P.init)
        Wy_old, Wz_old, Z_old = rng.standard_normal((M, n)), rng.standard_normal((M, n)), rng.standard_normal((M, n))
        for m in range(M):
            L.u[m + 1] = P.dtype_u(P.init)
            L.u[m + 1].diff[:], L.u[m + 1].alg[:] = rng.standard_normal(n), Z_old[m]
            L.f[m + 1] = P.dtype_f(P.init)
            L.f[m + 1].diff[:], L.f[m + 1].alg[:] = Wy_old[m], Wz_old[m]
        # integrate() before the sweep
        integ = L.sweep.integrate()
        ey = float(max(np.max(np.abs(np.asarray(integ[m].diff) - dt * (Q[m] @ Wy_old))) for m in range(M)))
        r.check(ey <= 1e-12 * (1 + float(np.max(np.abs(Wy_old)))), 'integrate', f'{tag}: integrate() differs from dt*Q*U\' (differential part) by {ey:.3e}')
        if which == 'fully':
            ez = float(max(np.max(np.abs(np.asarray(integ[m].alg) - dt * (Q[m] @ Wz_old))) for m in range(M)))
            r.check(ez <= 1e-12 * (1 + float(np.max(np.abs(Wz_old)))), 'integrate', f'{tag}: integrate() differs from dt*Q*U\' (algebraic part) by {ez:.3e}')
        try:
            L.sweep.update_nodes()
        except Exception as e:  # noqa
            from vf.core import in_sut

            r.check(False, 'no-exception', f'{tag}: update_nodes raised {type(e).__name__}: {e}')
            return
        Wy = np.array([np.asarray(L.f[m + 1].diff) for m in range(M)])
        Wz = np.array([np.asarray(L.f[m + 1].alg) for m in range(M)])
        Uy = np.array([np.asarray(L.u[m + 1].diff) for m in range(M)])
        Uz = np.array([np.asarray(L.u[m + 1].alg) for m in range(M)])
        QDn = QD
        sc = 1 + max(float(np.max(np.abs(x))) for x in (Wy, Wz, Uy, Uz, Wy_old, Wz_old))
        worst = 0.0
        for m in range(M):
            tm = t0 + dt * nodes[m]
            c = dt * QDn[m, m]
            ya = u0y + dt * ((Q[m] - QDn[m]) @ Wy_old) + dt * (QDn[m, :m] @ Wy[:m])
            if which == 'fully':
                za = u0z + dt * ((Q[m] - QDn[m]) @ Wz_old) + dt * (QDn[m, :m] @ Wz[:m])
                y, z = ya + c * Wy[m], za + c * Wz[m]
            else:
                y, z = ya + c * Wy[m], Uz[m]
            res_d = Wy[m] - (A11 @ y + A12 @ z + P.g1(tm))
            res_a = A21 @ y + A22 @ z + P.g2(tm)
            worst = max(worst, float(np.max(np.abs(res_d))), float(np.max(np.abs(res_a))))
        r.check(worst <= 1e-8 * sc, 'update-nodes', f'{tag}: the stored derivative/algebraic values violate the stage equations of the {which}-implicit DAE sweep by {worst:.3e} (scale {sc:.2e})')
        e = float(np.max(np.abs(Uy - (u0y[None, :] + dt * (Q @ Wy)))))
        r.check(e <= 1e-12 * sc, 'update-nodes', f'{tag}: differential node values are not u0 + dt*Q*U\' ({e:.3e})')
        if which == 'fully':
            e = float(np.max(np.abs(Uz - (u0z[None, :] + dt * (Q @ Wz)))))
            r.check(e <= 1e-12 * sc, 'update-nodes', f'{tag}: algebraic node values are not z0 + dt*Q*Z\' ({e:.3e})')
        else:
            r.check(np.array_equal(Wz, Wz_old), 'update-nodes', f'{tag}: the semi-implicit sweep changed the stored derivative of the algebraic part')
        # end point = last node (right node required)
        if case['qt'] in ('RADAU-RIGHT', 'LOBATTO'):
            L.sweep.compute_end_point()
            r.check(np.array_equal(np.asarray(L.uend), np.asarray(L.u[M])), 'end-point', f'{tag}: uend is not the last node value')
        else:
            r.count('dae_end_point_not_offered_without_right_node')
        r.nontrivial = True
        r.observe('family', 'dae_' + which)
    else:
        import pySDC.projects.DAE.sweepers.rungeKuttaDAE as RD

        cls = getattr(RD, which)
        try:
            S = make_step(DAE, pp, cls, {}, dict(dt=dt))
        except Exception as e:  # noqa
            r.check(False, 'no-exception', f'{tag}: construction raised {type(e).__name__}: {e}')
            return
        L = S.levels[0]
        P = L.prob
        L.status.time = t0
        L.status.sweep = 1
        y0 = rng.standard_normal(n)
        u0, du0 = P.consistent(y0, t0)
        # du_exact of the workload belongs to y = 1: hand the sweeper the consistent derivative of THIS start value
        P.du_exact = lambda t, du0=du0: P.dtype_u(du0)
        L.u[0] = P.dtype_u(u0)
        L.sweep.predict()
        L.sweep.update_nodes()
        A = np.array(cls.matrix, dtype=float)
        nodes = np.array(cls.nodes, dtype=float)
        Ms = A.shape[0]
        W = np.array([[np.asarray(L.f[m + 1].diff), np.asarray(L.f[m + 1].alg)] for m in range(Ms)])
        U = np.array([[np.asarray(L.u[m + 1].diff), np.asarray(L.u[m + 1].alg)] for m in range(Ms)])
        sc = 1 + float(max(np.max(np.abs(W)), np.max(np.abs(U))))
        worst = 0.0
        for m in range(Ms):
            tm = t0 + dt * nodes[m]
            y = np.asarray(u0.diff) + dt * sum(A[m, j] * W[j, 0] for j in range(m + 1))
            z = np.asarray(u0.alg) + dt * sum(A[m, j] * W[j, 1] for j in range(m + 1))
            res_d = W[m, 0] - (A11 @ y + A12 @ z + P.g1(tm))
            res_a = A21 @ y + A22 @ z + P.g2(tm)
            worst = max(worst, float(np.max(np.abs(res_d))), float(np.max(np.abs(res_a))))
            e = float(max(np.max(np.abs(U[m, 0] - y)), np.max(np.abs(U[m, 1] - z))))
            r.check(e <= 1e-12 * sc, 'rk-stages', f'{tag}: stage {m} value is not u0 + dt*sum_j a_mj U\'_j ({e:.3e})')
        r.check(worst <= 1e-8 * sc, 'rk-stages', f'{tag}: stage derivatives violate F(u0 + dt*sum a_mj U\'_j, U\'_m, t_m) = 0 by {worst:.3e}')
        r.nontrivial = True
        r.observe('family', 'dae_rk')
        r.observe('rk_dae_class', which)
    r.sample = dict(case={k: v for k, v in case.items() if not k.startswith('_')})


def run_case(case):
    r = Result(case)
    with np.errstate(invalid='raise', over='raise', divide='raise'):
        if case['kind'] == 'sdc':
            run_sdc(case, r)
        elif case['kind'] == 'rk':
            run_rk(case, r)
        elif case['kind'] == 'boris':
            run_boris(case, r)
        elif case['kind'] == 'multistep':
            with np.errstate(all='warn'):
                run_multistep(case, r)
        elif case['kind'] == 'dae':
            with np.errstate(all='warn'):
                run_dae(case, r)
        elif case['kind'] == 'paradiag':
            # diagonal/ParaDiag sweepers (QDiagonalization, QDiagonalizationIMEX): the solve prescribed by Q and G_inv, as
            # configured at construction and after every later set_G_inv (harness and oracle shared with C15)
            from vf.checks.C15 import run_sweep

            with np.errstate(all='warn'):
                run_sweep(case, r)
            r.observe('family', 'paradiag')
        else:
            run_verlet(case, r)
    r.count('kind:' + case['kind'])
    return r


def finalize(agg):
    out = []
    c = agg['counters']
    for k in ('oracle:update-nodes', 'oracle:integrate', 'oracle:end-point', 'oracle:rk-stages', 'oracle:rk-secondary', 'oracle:verlet-update'):
        if c.get(k, 0) == 0:
            out.append(f'monitor {k} never evaluated')
    fam = agg['seen'].get('family', set())
    if c.get('oracle:diagonalisation-sweep-solves-collocation', 0) == 0 or c.get('reconfigured_sweeps', 0) == 0:
        out.append('ParaDiag sweepers never reached the solve oracle (or never after a reconfiguration)')
    for f in FAMILIES + ['verlet', 'paradiag', 'dae_fully', 'dae_semi', 'dae_rk', 'multistep', 'boris']:
        if f not in fam:
            out.append(f'sweeper family {f} never reached the node-value oracle')
    for k in ('boris_default', 'boris_PIC'):
        if c.get(k, 0) == 0:
            out.append(f'Boris configuration {k} never reached the fixed-point oracle')
    if c.get('verlet_with_tau', 0) == 0:
        out.append('the Verlet sweeper was never swept with a FAS correction')
    if len(agg['seen'].get('rk_class', ())) < 10:
        out.append('fewer than 10 Runge-Kutta classes reached the stage oracle')
    return out
