"""C07 — the block protocol is safe for every convergence pattern of the parallel steps.

A DoneInjector (convergence controller placed after CheckConvergence) replaces S.status.done by a scripted truth table
over (slot, iteration); all tables are enumerated within bounds.  Monitors: full callback trace, wrappers on
controller.pfasst / send_full / recv_full, digests of every finished step re-taken at every later callback.
"""

import itertools
import re

import numpy as np

from vf.core import Result, digest

PROPERTY = 'C07'
LEVEL = 'fault_enumeration'
TECHNIQUE = 'exhaustive decision injection (done/not-done tables) on the real controller + trace automaton, send/recv matching and frozen-state monitors'
RULE = (
    'one case = one controller configuration (procs, levels, maxiter, nsweeps, predictor, coupling, all_to_done) and a chunk of done-tables; '
    'every table in {0,1}^(procs x maxiter) is run for the configurations/bounds listed in coverage.enumerated, random tables beyond the bounds '
    '(procs 5-8, maxiter 5-8) and random force_done positions; non-trivial = a table in which not all steps finish at the same iteration and the '
    'grammar/order/transfer monitors all ran; distinct by (configuration, canonical table = table truncated at each step\'s own completion)'
)
ASSUMPTIONS = [
    'the injector only writes S.status.done / force_done at the position where CheckConvergence writes them; done is forced at maxiter so every script terminates',
    'problem: scalar Dahlquist (1 level) / 1-D heat 15-7-3 points (multi level); the protocol is problem independent',
    'bounded progress bound: pfasst calls <= (maxiter+2)*(6+2*levels*max(nsweeps)) + 8 per block',
]
EXHAUSTIVE = {'quick': True, 'thorough': True}
GRAMMAR = re.compile(r'^S(Pp)?(I(Ww)+i)*E$')
CODE = dict(pre_step='S', pre_predict='P', post_predict='p', pre_iteration='I', pre_sweep='W', post_sweep='w', post_iteration='i', post_step='E')


def configs(tier):
    cfgs = []
    # (procs, nlev, nsweeps(list), predict, jac, a2d)
    base = [
        (1, [1], None, True, False), (1, [1], None, False, False), (1, [2], None, True, False),
        (2, [1, 1], 'pfasst_burnin', True, False), (2, [2, 1], 'fine_only', True, False), (2, [1, 1], None, True, False),
        (3, [1, 1, 1], 'pfasst_burnin', True, False), (3, [2, 2, 1], 'fine_only', True, False), (3, [1, 1, 1], None, True, False),
        (1, [1], None, True, True), (2, [1, 1], 'pfasst_burnin', True, True), (1, [2], None, False, True), (3, [1, 2, 1], None, True, True),
    ]
    for nlev, nsw, pred, jac, a2d in base:
        cfgs.append(dict(nlev=nlev, nsweeps=nsw, predict=pred, jac=jac, a2d=a2d))
    return cfgs


def cases(tier, seed):
    rng = np.random.default_rng(seed + 707)
    cs = []
    cfgs = configs(tier)
    chunk = 128
    bounds = [(p, m) for p in (1, 2, 3) for m in (1, 2, 3)]
    if tier == 'quick':
        pick = cfgs[:4] + cfgs[6:8] + cfgs[9:11]
        for cfg in pick:
            for (p, m) in bounds:
                tables = list(range(2 ** (p * m)))
                for i in range(0, len(tables), chunk):
                    cs.append(dict(cfg=cfg, procs=p, maxiter=m, tables=tables[i:i + chunk], mode='enum', _cost=len(tables[i:i + chunk]) * p * m * sum(cfg['nsweeps'])))
    else:
        for cfg in cfgs:
            for (p, m) in bounds:
                tables = list(range(2 ** (p * m)))
                for i in range(0, len(tables), chunk):
                    cs.append(dict(cfg=cfg, procs=p, maxiter=m, tables=tables[i:i + chunk], mode='enum', _cost=len(tables[i:i + chunk]) * p * m * sum(cfg['nsweeps'])))
        for cfg in [cfgs[0], cfgs[1], cfgs[3], cfgs[6], cfgs[9], cfgs[10]]:
            for (p, m) in [(4, 4), (4, 3), (3, 4), (4, 2), (4, 1), (1, 4), (2, 4)]:
                tables = list(range(2 ** (p * m)))
                ch = 512
                for i in range(0, len(tables), ch):
                    cs.append(dict(cfg=cfg, procs=p, maxiter=m, tables=tables[i:i + ch], mode='enum', _cost=len(tables[i:i + ch]) * p * m * sum(cfg['nsweeps'])))
    # random tables beyond the bounds + forced stops
    nr = 24 if tier == 'quick' else 400
    for i in range(nr):
        cfg = cfgs[int(rng.integers(0, len(cfgs)))]
        p, m = int(rng.integers(4, 9)), int(rng.integers(4, 9))
        tabs = [int(rng.integers(0, 2 ** 62)) % (2 ** (p * m)) if p * m < 62 else int(rng.integers(0, 2 ** 62)) | (int(rng.integers(0, 2 ** 2)) << 62) for _ in range(20)]
        cs.append(dict(cfg=cfg, procs=p, maxiter=m, tables=tabs, mode='random', _cost=20 * p * m * sum(cfg['nsweeps'])))
    for i in range(16 if tier == 'quick' else 300):
        cfg = cfgs[int(rng.integers(0, len(cfgs)))]
        p, m = int(rng.integers(1, 5)), int(rng.integers(1, 5))
        tabs = [int(rng.integers(0, 2 ** (p * m))) for _ in range(16)]
        fd = [[int(rng.integers(0, p)), int(rng.integers(0, m + 1))] for _ in range(16)]
        cs.append(dict(cfg=cfg, procs=p, maxiter=m, tables=tabs, force=fd, mode='force', _cost=16 * p * m * sum(cfg['nsweeps'])))
    # mode 'cc': the same pattern space, but the decisions are taken by the shipped CheckConvergence from scripted residuals
    # (restol 1: 0.5 = converged, 2 = not), with forced-continuation flags at random (step, iteration) positions
    for ci, cfg in enumerate(cfgs if tier != 'quick' else cfgs[:4] + cfgs[6:8] + cfgs[9:11]):
        for (p, m) in bounds:
            tables = list(range(2 ** (p * m)))
            if tier == 'quick' and len(tables) > 64:
                tables = [int(x) for x in rng.choice(len(tables), 64, replace=False)]
            for i in range(0, len(tables), chunk):
                tb = tables[i:i + chunk]
                fc = []
                for _ in tb:
                    nf = int(rng.integers(0, 3))
                    f = set()
                    for _k in range(nf):
                        s_ = int(rng.integers(0, p))
                        f.add((s_, m + len([1 for (a, b) in f if a == s_ and b >= m])) if rng.random() < 0.6 else (s_, int(rng.integers(0, m + 1))))
                    fc.append(sorted(f))
                cs.append(dict(cfg=cfg, procs=p, maxiter=m, tables=tb, force=fc, mode='cc', _cost=1.3 * len(tb) * p * m * sum(cfg['nsweeps'])))
    return cs


def completion_with_force(rows, maxiter, force):
    """completion iteration per step for decisions taken by CheckConvergence: first j >= completion of the previous step with
    (j >= maxiter or row[j]) and continuation not forced at (step, j)"""
    out = []
    prev = 0
    for p, row in enumerate(rows):
        j = prev
        while not ((j >= maxiter or row[j]) and (p, j) not in force):
            j += 1
        out.append(j)
        prev = j
    return out


def table_rows(code, procs, maxiter):
    bits = [(code >> i) & 1 for i in range(procs * maxiter)]
    return [bits[s * maxiter:(s + 1) * maxiter] for s in range(procs)]


def canonical(rows, maxiter):
    """truncate each row at the step's own completion (first 1 at or after the previous step's completion)"""
    out = []
    prev = 0
    for row in rows:
        j = prev
        while j < maxiter and not row[j]:
            j += 1
        out.append((j,) + tuple(row[:j + 1]))
        prev = j
    return tuple(out)


def build(case, box, H):
    from pySDC.implementations.controller_classes.controller_nonMPI import controller_nonMPI
    from pySDC.implementations.problem_classes.HeatEquation_ND_FD import heatNd_unforced
    from pySDC.implementations.problem_classes.TestEquation_0D import testequation0d
    from pySDC.implementations.sweeper_classes.generic_implicit import generic_implicit
    from pySDC.implementations.transfer_classes.TransferMesh import mesh_to_mesh

    from vf.mon.probes import ContinueInjector, DoneInjector, ResidualInjector

    cfg = case['cfg']
    nlev = len(cfg['nlev']) if isinstance(cfg['nlev'], list) else cfg['nlev']
    nlev = int(nlev)
    nsw = cfg['nsweeps']
    if nlev == 1:
        pc, pp = testequation0d, dict(lambdas=np.array([-1.0, -0.2 + 1j]), u0=1.0)
        M = 2
    else:
        pc, pp = heatNd_unforced, dict(nvars=[15, 7, 3][:nlev], nu=0.1, freq=2, bc='dirichlet-zero')
        M = [3, 2, 2][:nlev]
    desc = dict(problem_class=pc, problem_params=pp, sweeper_class=generic_implicit, sweeper_params=dict(num_nodes=M, quad_type='RADAU-RIGHT', QI='LU'),
                level_params=dict(dt=0.05, restol=-1, nsweeps=nsw if nlev > 1 else nsw[0]), step_params=dict(maxiter=case['maxiter']),
                convergence_controllers={DoneInjector: dict(box=box)})
    if case['mode'] == 'cc':
        desc['level_params']['restol'] = 1.0
        desc['convergence_controllers'] = {ResidualInjector: dict(box=box), ContinueInjector: dict(box=box)}
    if nlev > 1:
        desc.update(space_transfer_class=mesh_to_mesh, space_transfer_params=dict(iorder=2, rorder=2))
    cp = dict(logger_level=50, dump_setup=False, hook_class=[H], mssdc_jac=cfg['jac'], all_to_done=cfg['a2d'])
    if nlev > 1:
        cp['predict_type'] = cfg['predict']
    return controller_nonMPI(case['procs'], cp, desc), nlev


def step_digest(S):
    out = []
    for L in S.levels:
        out.append(tuple(None if x is None else digest(x) for x in L.u) + tuple(None if x is None else digest(x) for x in L.f) + (None if L.uend is None else digest(L.uend),))
    return tuple(out)


def run_case(case):
    from pySDC.helpers.stats_helper import get_sorted

    from vf.mon.tracehook import find_hook, make_trace_hook

    r = Result(case)
    cfg = case['cfg']
    procs, maxiter = case['procs'], case['maxiter']
    cfg['nlev'] = len(cfg['nsweeps'])
    r.key = f"{cfg}/{procs}/{maxiter}/{case['mode']}/{case['tables'][0]}"
    box = dict(table=None)
    mon = dict(frozen={}, frozen_viol=[], ms=None)

    class IterationGuard(Exception):
        pass

    def extra(ev, step, level_number):
        if step.status.iter > maxiter + 10:
            raise IterationGuard(f'slot {step.status.slot} reached iteration {step.status.iter}')
        # frozen-state monitor: every step that has finished (stage DONE) must keep the digests it had at its post_step
        if mon['ms'] is None:
            return
        if ev['cb'] == 'post_step':
            mon['frozen'][step.status.slot] = step_digest(step)
        for T in mon['ms']:
            sl = T.status.slot
            if T.status.stage == 'DONE' and sl in mon['frozen'] and T is not step:
                if step_digest(T) != mon['frozen'][sl]:
                    mon['frozen_viol'].append((sl, ev['cb'], ev.get('slot'), ev.get('iter')))
                mon['checks'] = mon.get('checks', 0) + 1

    H = make_trace_hook(extra=extra)
    ctrl, nlev = build(case, box, H)
    hook = find_hook(ctrl, H)
    mon['ms'] = ctrl.MS
    # ---- wrappers (instance attributes) on pfasst / send_full / recv_full
    log = dict(pfasst=[], comm=[])
    orig_pfasst, orig_send, orig_recv = ctrl.pfasst, ctrl.send_full, ctrl.recv_full

    def pfasst(ms_active):
        log['pfasst'].append(tuple(S.status.stage for S in ms_active))
        return orig_pfasst(ms_active)

    def send_full(S, level=None, add_to_stats=False):
        out = orig_send(S, level=level, add_to_stats=add_to_stats)
        L = S.levels[level]
        log['comm'].append(('send', S.status.slot, level, S.status.iter, bool(S.status.last), None if L.uend is None else digest(L.uend), L.tag))
        return out

    def recv_full(S, level=None, add_to_stats=False):
        eff = (not S.status.prev_done) and (not S.status.first)
        src_tag = S.prev.levels[level].tag if eff else None
        out = orig_recv(S, level=level, add_to_stats=add_to_stats)
        log['comm'].append(('recv', S.status.slot, level, S.status.iter, eff, digest(S.levels[level].u[0]) if eff else None, src_tag, S.prev.status.slot if eff else None))
        return out

    ctrl.pfasst, ctrl.send_full, ctrl.recv_full = pfasst, send_full, recv_full
    P = ctrl.MS[0].levels[0].prob
    u0 = P.u_exact(0.0)
    seen_canon = set()
    nontriv = 0
    for ti, code in enumerate(case['tables']):
        rows = table_rows(code, procs, maxiter)
        box['table'] = rows
        box['force_done'] = {tuple(case['force'][ti])} if case['mode'] == 'force' else None
        box['decisions'] = []
        fcont = set()
        if case['mode'] == 'cc':
            fcont = {tuple(x) for x in case['force'][ti]}
            box['force_continue'] = fcont
            box['forced'] = []
            box['script'] = {p_: [0.5 if b else 2.0 for b in rows[p_]] + [2.0] * 12 for p_ in range(procs)}
        hook.events.clear()
        mon['frozen'].clear()
        mon['frozen_viol'].clear()
        log['pfasst'].clear()
        log['comm'].clear()
        tag = f"{r.key.split('/')[0]} procs={procs} maxiter={maxiter} table={rows} force={box['force_done']}" + (f' decisions by CheckConvergence, continuation forced at {sorted(fcont)}' if case['mode'] == 'cc' else '')
        try:
            uend, stats = ctrl.run(u0, 0.0, procs * 0.05)
        except IterationGuard as e:
            r.check(False, 'block-terminates', f'{tag}: {e}: the block does not terminate (maxiter={maxiter})')
            for T in ctrl.MS:
                T.status.force_continue = False
            continue
        except Exception as e:  # noqa
            r.check(False, 'no-exception', f'{tag}: {type(e).__name__}: {e}')
            continue
        r.check(True, 'no-exception', '')
        ev = hook.events
        # (7) grammar per slot
        ends = {}
        for s in range(procs):
            w = ''.join(CODE[e['cb']] for e in ev if e.get('slot') == s and e['cb'] in CODE)
            r.check(bool(GRAMMAR.match(w)), 'callback-grammar', f'{tag}: slot {s} callback word {w!r} is not in S(Pp)?(I(Ww)+i)*E')
        # (1) order of completion
        posts = [e for e in ev if e['cb'] == 'post_step']
        r.check([e['slot'] for e in posts] == sorted(e['slot'] for e in posts) and len(posts) == procs, 'finish-in-time-order', f'{tag}: post_step slots {[e["slot"] for e in posts]}')
        its = {e['slot']: e['iter'] for e in posts}
        r.check(all(its.get(s, 0) >= its.get(s - 1, 0) for s in range(1, procs)), 'finish-iteration-monotone', f'{tag}: iterations at completion {its} (a later step finished before an earlier one)')
        # expected completion from the table (first/last own done after previous completion) -- the rule done := done and prev_done
        if case['mode'] == 'cc':
            r.count('forced_continuations', len(set(box.get('forced', []))))
            if not cfg['a2d']:
                exp = completion_with_force(rows, maxiter, fcont)
                r.check([its.get(s) for s in range(procs)] == exp, 'completion-matches-table', f'{tag}: completion iterations {its}, the stopping rule gives {exp}')
                r.count('cc_runs_past_budget', int(any(e_ > maxiter for e_ in exp)))
        elif case['mode'] != 'force' and not cfg['a2d']:
            canon = canonical(rows, maxiter)
            exp = [c[0] for c in canon]
            r.check([its.get(s) for s in range(procs)] == exp, 'completion-matches-table', f'{tag}: completion iterations {its}, table gives {exp}')
        # (8) all_to_done
        if cfg['a2d']:
            r.check(len(set(its.values())) == 1, 'all-to-done-same-niter', f'{tag}: all_to_done but niter {its}')
        # (2) frozen
        r.check(not mon['frozen_viol'], 'finished-step-frozen', f'{tag}: data of a finished step changed later: {mon["frozen_viol"][:3]}')
        # (3) stages equal at pfasst entry
        for st in log['pfasst']:
            running = [x for x in st if x != 'DONE']
            r.check(len(set(running)) <= 1, 'stages-equal', f'{tag}: stages at pfasst entry {st}')
        # (6) bounded progress
        bound = (maxiter + 2 + len(fcont)) * (6 + 2 * nlev * max(cfg['nsweeps'])) + 8
        r.check(len(log['pfasst']) <= bound, 'bounded-progress', f'{tag}: {len(log["pfasst"])} controller stages > bound {bound}')
        # (4) transfers: each effective receive gets the bytes and the tag of the latest send of its predecessor on that level
        last_send = {}
        for c in log['comm']:
            if c[0] == 'send':
                _, slot, level, it, is_last, dg, tg = c
                if not is_last:
                    last_send[(slot, level)] = dict(it=it, dg=dg, tag=tg, uses=0)
            else:
                _, slot, level, it, eff, dg, src_tag, pslot = c
                if not eff:
                    continue
                snd = last_send.get((pslot, level))
                ok = snd is not None and src_tag == (level, it, pslot) and snd['tag'] == src_tag
                r.check(ok, 'recv-matches-send-tag', f'{tag}: slot {slot} level {level} iter {it} received with source tag {src_tag}, last send of slot {pslot}: {snd}')
                if snd is not None:
                    r.check(dg == snd['dg'], 'recv-gets-sent-bytes', f'{tag}: slot {slot} level {level} iter {it}: u[0] after recv is not the uend the sender produced')
                    snd['uses'] += 1
                    r.check(snd['uses'] <= 1, 'send-consumed-once', f'{tag}: the send of slot {pslot} level {level} iter {snd["it"]} was consumed {snd["uses"]} times')
        # niter stats agree
        ni = [v for _, v in get_sorted(stats, type='niter', sortby='time')]
        r.check(ni == [its.get(s) for s in range(procs)], 'niter-logged', f'{tag}: logged niter {ni} vs {its}')
        c = canonical(rows, maxiter)
        if c not in seen_canon:
            seen_canon.add(c)
            if len(set(its.values())) > 1 or procs == 1:
                nontriv += 1
        r.count('runs')
        r.count('frozen_checks', mon.get('checks', 0))
        mon['checks'] = 0
        r.count('transfers_checked', sum(1 for c in log['comm'] if c[0] == 'recv' and c[4]))
    r.nontrivial = nontriv > 0
    r.counters['distinct_canonical_tables'] = len(seen_canon)
    r.counters['nontrivial_tables'] = nontriv
    r.observe('config', f"{cfg['nsweeps']}/{cfg['predict']}/{cfg['jac']}/{cfg['a2d']}")
    if case['mode'] == 'enum':
        r.observe('enumerated', f"{cfg['nsweeps']}/{cfg['predict']}/jac{cfg['jac']}/a2d{cfg['a2d']}: procs={procs} maxiter={maxiter}")
    r.sample = dict(cfg=cfg, procs=procs, maxiter=maxiter, table=table_rows(case['tables'][-1], procs, maxiter), mode=case['mode'])
    return r


def finalize(agg):
    out = []
    c = agg['counters']
    for k in ('oracle:callback-grammar', 'oracle:finished-step-frozen', 'oracle:recv-gets-sent-bytes', 'oracle:stages-equal', 'oracle:completion-matches-table', 'oracle:all-to-done-same-niter'):
        if c.get(k, 0) == 0:
            out.append(f'monitor {k} never evaluated')
    if c.get('frozen_checks', 0) == 0:
        out.append('frozen-state monitor never compared a finished step')
    for k, why in (('forced_continuations', 'no forced continuation reached the real CheckConvergence'), ('cc_runs_past_budget', 'no block decided by CheckConvergence ran past the iteration budget')):
        if c.get(k, 0) == 0:
            out.append(why)
    return out


def coverage_extra(agg, tier):
    return dict(enumerated=sorted(agg['seen'].get('enumerated', [])), distinct_canonical_tables=agg['counters'].get('distinct_canonical_tables', 0),
                block_runs=agg['counters'].get('runs', 0), exhaustive_note='every {0,1}^(procs x maxiter) table was run for each (configuration, procs, maxiter) listed under "enumerated"; beyond them tables are sampled')
