"""C04 — k iterations give order min(k,p); Runge-Kutta sweepers attain their order.

The real one-step map is sampled on a circle of complex z (testequation0d with lambdas = z/dt, one controller step);
Taylor coefficients of the amplification factor are extracted by FFT and compared with 1/n!.
"""

from math import comb, factorial

import numpy as np

from vf.core import Result

PROPERTY = 'C04'
LEVEL = 'exploration'
TECHNIQUE = 'black-box Taylor-coefficient extraction of the real step function on a complex circle (FFT) vs exp(z); collocation stability function from qmat'
RULE = (
    'kind=sdc: one (node family, quadrature type, node count 1..7, sweeper role implicit/explicit/IMEX, QDelta name(s)) with every k=1..p+2 and both end-point modes, '
    'plus the converged limit; kind=rk: one Runge-Kutta / IMEX-RK class found by introspection; the grid is enumerated completely in thorough and sampled in quick; '
    'non-trivial = the step ran and >=1 Taylor coefficient was compared; distinct by parameters'
)
ASSUMPTIONS = [
    'N=64 points on |z|=0.4 (SDC; 40x40 on 0.25 for IMEX) / 0.25 (RK), the circle shrunk to half the distance of the nearest pole 1/eig(QDelta); aliasing is gated a posteriori: a k whose mid-band Fourier coefficients exceed 1e-8 is counted as unresolved, not judged (geometric decay of the coefficients of a rational function assumed); coefficient tolerance 1e-9/r^n absolute for SDC (FFT round-off amplified by r^-n), 1e-12/r^n for the one-sweep Runge-Kutta step functions and their embedded differences (observed floor 1e-16/r^n)',
    'documented RK orders are taken from the repository\'s own test table (expected local order minus one), part of the trusted base',
    'QDelta names the sweeper rejects for a node set are observed and listed, not failed',
]
EXHAUSTIVE = {'quick': False, 'thorough': True}
NT = ['LEGENDRE', 'EQUID', 'CHEBY-1', 'CHEBY-2', 'CHEBY-3', 'CHEBY-4']
QT = ['RADAU-RIGHT', 'LOBATTO', 'GAUSS', 'RADAU-LEFT']
RK_ORDER = {
    'ForwardEuler': 1, 'BackwardEuler': 1, 'ExplicitMidpointMethod': 2, 'ImplicitMidpointMethod': 2, 'RK4': 4, 'CrankNicolson': 2, 'Cash_Karp': 5,
    'EDIRK4': 4, 'ESDIRK53': 5, 'ESDIRK43': 4, 'DIRK43': 4, 'DIRK43_2': 3, 'Heun_Euler': 2, 'ARK548L2SAERK': 5, 'ARK548L2SAERK2': 5,
    'ARK548L2SAESDIRK': 5, 'ARK548L2SAESDIRK2': 5, 'ARK54': 5, 'ARK548L2SA': 5, 'IMEXEuler': 1, 'IMEXEulerStifflyAccurate': 1, 'ARK2': 2, 'ARK3': 3,
    'ARK32': 3, 'ARK324L2SAERK': 3, 'ARK324L2SAESDIRK': 3,
}


def cases(tier, seed):
    from qmat.qdelta import QDELTA_GENERATORS

    rng = np.random.default_rng(seed + 404)
    names = sorted(QDELTA_GENERATORS)
    cs = []
    grid = []
    for nt in NT:
        for qt in QT:
            for M in range(1, 8):
                if M == 1 and qt in ('LOBATTO', 'RADAU-LEFT'):
                    continue
                for nm in names:
                    grid.append(dict(kind='sdc', role='impl', nt=nt, qt=qt, M=M, q1=nm, q2=None, _cost=M * M))
                    grid.append(dict(kind='sdc', role='expl', nt=nt, qt=qt, M=M, q1=None, q2=nm, _cost=M * M))
    imex = []
    for nt in NT:
        for qt in QT:
            for M in range(1, 6):
                if M == 1 and qt in ('LOBATTO', 'RADAU-LEFT'):
                    continue
                for q1 in ['IE', 'LU', 'MIN-SR-S', 'MIN-SR-NS', 'Qpar', 'TRAP', 'LU2', 'MIN-SR-FLEX', 'IEpar', 'PIC']:
                    for q2 in ['EE', 'PIC']:
                        imex.append(dict(kind='sdc', role='imex', nt=nt, qt=qt, M=M, q1=q1, q2=q2, _cost=4 * M * M))
    if tier == 'quick':
        grid = [grid[i] for i in rng.choice(len(grid), 260, replace=False)]
        imex = [imex[i] for i in rng.choice(len(imex), 30, replace=False)]
    cs += grid + imex
    for idx in range(40):
        cs.append(dict(kind='rk', idx=idx, _cost=10))
    for i in range(8 if tier == 'quick' else 200):
        cs.append(dict(kind='rkn', cls=['RKN', 'Velocity_Verlet'][i % 2], dt0=float(rng.uniform(0.004, 0.02)), seed=int(rng.integers(0, 2**31)), _cost=10))
    return cs


def taylor(Rvals, z, nmax):
    N = len(z)
    return [np.sum(Rvals * z ** (-n)) / N for n in range(nmax + 1)]


def one_step(sweeper_class, swp, lambdas, dt, maxiter, restol, imex_lams=None):
    from pySDC.implementations.controller_classes.controller_nonMPI import controller_nonMPI
    from pySDC.implementations.problem_classes.TestEquation_0D import test_equation_IMEX, testequation0d

    if imex_lams is None:
        pc, pp = testequation0d, dict(lambdas=np.array(lambdas), u0=1.0)
    else:
        pc, pp = test_equation_IMEX, dict(lambdas_implicit=np.array(imex_lams[0]), lambdas_explicit=np.array(imex_lams[1]), u0=1.0)
    desc = dict(problem_class=pc, problem_params=pp, sweeper_class=sweeper_class, sweeper_params=dict(swp), level_params=dict(dt=dt, restol=restol), step_params=dict(maxiter=maxiter))
    ctrl = controller_nonMPI(1, dict(logger_level=50, dump_setup=False), desc)
    P = ctrl.MS[0].levels[0].prob
    u0 = P.u_init
    u0[:] = 1.0
    uend, _ = ctrl.run(u0, 0.0, dt)
    return np.asarray(uend).copy(), ctrl


def run_sdc(case, r):
    from pySDC.implementations.sweeper_classes.explicit import explicit
    from pySDC.implementations.sweeper_classes.generic_implicit import generic_implicit
    from pySDC.implementations.sweeper_classes.imex_1st_order import imex_1st_order

    from vf.ref import sdc as ref

    role, nt, qt, M = case['role'], case['nt'], case['qt'], case['M']
    r.key = f"sdc/{role}/{nt}/{qt}/{M}/{case['q1']}/{case['q2']}"
    gen = ref.coll(M, nt, qt)
    p = int(gen.order)
    Q = np.array(gen.Q)
    w = np.array(gen.weights)
    dt = 0.25
    right = qt in ('LOBATTO', 'RADAU-RIGHT')
    # the Cauchy/FFT extraction needs the step function analytic inside the circle: its poles sit at 1/eig(QDelta_implicit)
    # (MIN-type coefficients on equidistant nodes can exceed 1/rad), so the circle is shrunk to half the pole distance
    try:
        with np.errstate(all='ignore'):
            rho = float(np.max(np.abs(np.linalg.eigvals(ref.qdelta(gen, case['q1'], 1))))) if case['q1'] is not None else 0.0
    except Exception:  # noqa
        rho = 0.0
    if np.isfinite(rho) and rho > 0:
        shrink = min(1.0, 0.5 / (rho * (0.25 if role == 'imex' else 0.4)))
    else:
        shrink = 1.0
    if shrink < 0.2:
        r.count('pole_too_close_for_extraction')
        r.observe('pole_too_close', f"{case['q1']}:{nt}/{qt}/{M}")
        r.check(True, 'noop', '')
        return
    if shrink < 1.0:
        r.count('circle_shrunk_for_pole')
    if role == 'imex':
        N = 40
        rad = 0.25 * shrink
        zz = rad * np.exp(2j * np.pi * np.arange(N) / N)
        ZI, ZE = np.meshgrid(zz, zz, indexing='ij')
        lamI, lamE = (ZI / dt).reshape(-1), (ZE / dt).reshape(-1)
        sw, base = imex_1st_order, dict(QI=case['q1'], QE=case['q2'])
    else:
        N = 64
        rad = 0.4 * shrink
        z = rad * np.exp(2j * np.pi * np.arange(N) / N)
        lam = z / dt
        sw, base = (generic_implicit, dict(QI=case['q1'])) if role == 'impl' else (explicit, dict(QE=case['q2']))
    base.update(num_nodes=M, quad_type=qt, node_type=nt, initial_guess='spread')
    # preconditioners qmat cannot build for this node set (e.g. LU-type factorisations of a Q with a zero first row) deliver
    # non-finite coefficients; that is outside what the sweeper can be asked for
    try:
        with np.errstate(all='ignore'):
            bad = (case['q1'] is not None and not np.all(np.isfinite(ref.qdelta(gen, case['q1'], 1)))) or (case['q2'] is not None and not np.all(np.isfinite(ref.qdelta_explicit(gen, case['q2'], 1)[0])))
    except Exception:  # noqa
        bad = True
    if bad:
        r.count('qdelta_not_available_for_rule')
        r.observe('unavailable', f"{case['q1']}/{case['q2']}:{nt}/{qt}/{M}")
        r.check(True, 'noop', '')
        return
    # both end-point modes for every quadrature type: without a node at the right end the sweeper has to fall back to the
    # collocation update even when do_coll_update=False is requested (the default)
    modes = [False, True]
    # round-off amplification of k sweeps: |K(z)|^k with K the sweep iteration matrix from qmat's coefficients; Taylor
    # coefficients can only be resolved while this stays far below 1/eps (divergent preconditioner/node pairs at |z|=rad)
    with np.errstate(all='ignore'):
        try:
            if role == 'impl':
                QDm = ref.qdelta(gen, case['q1'], 1)
                zs = rad * np.exp(2j * np.pi * np.arange(8) / 8)
                Kn = max(np.linalg.norm(np.linalg.solve(np.eye(M) - zz_ * QDm, zz_ * (Q - QDm)), np.inf) * max(1.0, np.linalg.cond(np.eye(M) - zz_ * QDm)) for zz_ in zs)
            elif role == 'expl':
                QDm = ref.qdelta_explicit(gen, case['q2'], 1)[0]
                zs = rad * np.exp(2j * np.pi * np.arange(8) / 8)
                Kn = max(np.linalg.norm(np.linalg.solve(np.eye(M) - zz_ * QDm, zz_ * (Q - QDm)), np.inf) for zz_ in zs)
            else:
                QIm, QEm = ref.qdelta(gen, case['q1'], 1), ref.qdelta_explicit(gen, case['q2'], 1)[0]
                zs = rad * np.exp(2j * np.pi * np.arange(6) / 6)
                Kn = max(np.linalg.norm(np.linalg.solve(np.eye(M) - a_ * QIm - b_ * QEm, a_ * (Q - QIm) + b_ * (Q - QEm)), np.inf) for a_ in zs for b_ in zs)
        except Exception:  # noqa
            Kn = np.inf
    Kn = float(Kn) if np.isfinite(Kn) else np.inf
    for cu in modes:
        swp = dict(base, do_coll_update=cu)
        for k in list(range(1, p + 3)):
            try:
                if role == 'imex':
                    R, ctrl = one_step(sw, swp, None, dt, k, -1.0, imex_lams=(lamI, lamE))
                else:
                    R, ctrl = one_step(sw, swp, lam, dt, k, -1.0)
            except Exception as e:  # noqa
                from vf.core import in_sut

                r.count('rejected_at_construction')
                r.observe('rejected', f"{role}:{case['q1']}:{case['q2']}:{nt}/{qt}/{M}:{type(e).__name__}")
                r.check(True, 'noop', '')
                return
            ordk = min(k, p)
            amp = max(1.0, Kn) ** k
            if not np.isfinite(amp) or amp > 1e4:
                r.count('k_unresolved_roundoff_amplification')
                continue
            roundoff = 1e-13 * amp
            if role == 'imex':
                Rm = R.reshape(N, N)
                C = np.fft.fft2(Rm) / (N * N)
                # a-posteriori aliasing gate: the mid-band Fourier coefficients bound what folds back onto the low ones
                # (geometric decay of a rational function's coefficients): alias ~ tail^2
                h = N // 2
                tail = float(max(np.max(np.abs(C[h - 2 : h + 3, :])), np.max(np.abs(C[:, h - 2 : h + 3]))))
                if not np.isfinite(tail) or tail > 1e-8:
                    r.count('k_unresolved_aliasing')
                    continue
                for a in range(ordk + 1):
                    for b in range(ordk + 1 - a):
                        got = C[a, b] / rad ** (a + b)
                        exp = comb(a + b, a) / factorial(a + b)
                        tol = (1e-9 + roundoff + 50 * rad**N) / rad ** (a + b)
                        r.check(abs(got - exp) <= tol, 'sdc-order-min-k-p', f'{r.key} coll_update={cu} k={k}: coefficient of zI^{a} zE^{b} is {got:.6g}, exp(zI+zE) has {exp:.6g} (order min(k,p)={ordk})', k=k)
            else:
                F = np.fft.fft(R) / N
                tail = float(np.max(np.abs(F[N // 2 - 3 : N // 2 + 4])))
                if not np.isfinite(tail) or tail > 1e-8:
                    r.count('k_unresolved_aliasing')
                    continue
                c = taylor(R, z, ordk)
                for n in range(ordk + 1):
                    tol = (1e-9 + roundoff) / rad**n
                    r.check(abs(c[n] - 1.0 / factorial(n)) <= tol, 'sdc-order-min-k-p', f'{r.key} coll_update={cu} k={k}: Taylor coefficient {n} of the amplification factor is {c[n]:.8g}, exp has {1.0 / factorial(n):.8g} (order min(k,p)={ordk}, p={p})', k=k)
                if k == min(p, 2):
                    # the same controller and sweeper used for another step with a different step size
                    Lv = ctrl.MS[0].levels[0]
                    Lv.params.dt = 0.6 * dt
                    u0_ = Lv.prob.u_init
                    u0_[:] = 1.0
                    try:
                        ue_, _ = ctrl.run(u0_, 0.0, 0.6 * dt)
                        c2_ = taylor(np.asarray(ue_).copy(), 0.6 * z, ordk)
                        for n in range(ordk + 1):
                            tol = (1e-9 + roundoff) / (0.6 * rad) ** n
                            r.check(abs(c2_[n] - 1.0 / factorial(n)) <= tol, 'sdc-order-min-k-p', f'{r.key} coll_update={cu} k={k}: on a second step with dt scaled by 0.6 Taylor coefficient {n} is {c2_[n]:.8g}, exp has {1.0 / factorial(n):.8g}', k=k)
                        r.count('sdc_steps_with_changed_dt')
                    except Exception as e:  # noqa
                        r.check(False, 'no-exception', f'{r.key}: second run with a changed step size raised {type(e).__name__}: {e}')
            r.nontrivial = True
        # converged limit == collocation stability function (single z-circle, implicit/explicit roles only cheap enough)
        if role != 'imex':
            try:
                small = 0.15 * np.exp(2j * np.pi * np.arange(16) / 16)
                R, ctrl = one_step(sw, swp, small / dt, dt, 300, 1e-13)
                L = ctrl.MS[0].levels[0]
                if L.status.residual is not None and L.status.residual <= 1e-13:
                    exp = []
                    for zz_ in small:
                        U = np.linalg.solve(np.eye(M) - zz_ * Q, np.ones(M))
                        exp.append(1 + zz_ * (w @ U) if (cu or not right) else U[-1])
                    e = float(np.max(np.abs(R - np.array(exp))))
                    r.check(e <= 1e-10, 'converged-is-collocation-stability-function', f'{r.key} coll_update={cu}: converged amplification factor differs from the collocation stability function by {e:.3e}')
                else:
                    r.count('limit_not_converged')
            except Exception:  # noqa
                r.count('limit_failed')
    r.observe('role', role)
    r.observe('rule', f'{nt}/{qt}/{M}')
    r.observe('name', f"{case['q1']}/{case['q2']}")
    r.sample = dict(case={k: v for k, v in case.items() if not k.startswith('_')}, p=p)


def run_rk(case, r):
    import pySDC.implementations.sweeper_classes.Runge_Kutta as RKm
    from vf.checks.C02 import rk_classes

    classes = rk_classes()
    if case['idx'] >= len(classes):
        r.check(True, 'noop', '')
        return
    cls = classes[case['idx']]
    name = cls.__name__
    r.key = f'rk/{name}'
    imex = issubclass(cls, RKm.RungeKuttaIMEX)
    dt = 0.5
    order = RK_ORDER.get(name)
    nmax = 8

    def measure(R, S2, rad, N):
        """(leading order through which R agrees with exp, order of the first non-zero coefficient of R - S2)"""
        if imex:
            C = np.fft.fft2(R.reshape(N, N)) / (N * N)
            measured = 0
            for tot in range(0, nmax):
                if all(abs(C[a, tot - a] / rad**tot - comb(tot, a) / factorial(tot)) <= 1e-12 / rad**tot for a in range(tot + 1)):
                    measured = tot
                else:
                    break
            sec = None
            if S2 is not None:
                C2 = np.fft.fft2((R - S2).reshape(N, N)) / (N * N)
                low = 0
                for tot in range(0, nmax):
                    if all(abs(C2[a, tot - a] / rad**tot) <= 1e-12 / rad**tot for a in range(tot + 1)):
                        low = tot + 1
                    else:
                        break
                sec = low
            return measured, sec
        zc = rad * np.exp(2j * np.pi * np.arange(N) / N)
        c = taylor(R, zc, nmax)
        measured = 0
        for n in range(nmax + 1):
            if abs(c[n] - 1.0 / factorial(n)) <= 1e-12 / rad**n:
                measured = n
            else:
                break
        sec = None
        if S2 is not None:
            c2 = taylor(R - S2, zc, nmax)
            low = 0
            for n in range(nmax + 1):
                if abs(c2[n]) <= 1e-12 / rad**n:
                    low = n + 1
                else:
                    break
            sec = low
        return measured, sec

    if imex:
        N, rad = 24, 0.2
        zz = rad * np.exp(2j * np.pi * np.arange(N) / N)
        ZI, ZE = np.meshgrid(zz, zz, indexing='ij')
        R, ctrl = one_step(cls, {}, None, dt, 1, -1.0, imex_lams=((ZI / dt).reshape(-1), (ZE / dt).reshape(-1)))
    else:
        N, rad = 64, 0.25
        z = rad * np.exp(2j * np.pi * np.arange(N) / N)
        R, ctrl = one_step(cls, {}, z / dt, dt, 1, -1.0)
    S2 = np.asarray(ctrl.MS[0].levels[0].sweep.u_secondary).copy() if cls.is_embedded() else None
    measured, sec = measure(R, S2, rad, N)
    # the same sweeper object used again with other step sizes (what a step-size controller does): the step function of
    # every later step must be that of ITS dt (z scales with dt2/dt, so the samples lie on a circle of radius rad*dt2/dt)
    Lv = ctrl.MS[0].levels[0]
    for fac in (0.6, 1.5, 0.6):
        dt2 = dt * fac
        Lv.params.dt = dt2
        u0 = Lv.prob.u_init
        u0[:] = 1.0
        uend, _ = ctrl.run(u0, 0.0, dt2)
        R2 = np.asarray(uend).copy()
        S22 = np.asarray(Lv.sweep.u_secondary).copy() if cls.is_embedded() else None
        m2, s2 = measure(R2, S22, rad * fac, N)
        r.check(m2 >= min(measured, order if order is not None else measured), 'rk-order', f'{name}: on a later step with dt changed by the factor {fac} the amplification factor agrees with exp only through order {m2} (first step: {measured}, documented {order})')
        if cls.is_embedded():
            r.check(s2 >= min(sec, cls.get_update_order()), 'rk-embedded-difference-order', f'{name}: on a later step with dt changed by the factor {fac} primary - secondary starts at order {s2} (first step: {sec})')
        r.count('rk_steps_with_changed_dt')
    if order is not None:
        r.check(measured >= order, 'rk-order', f'{name}: amplification factor agrees with exp through order {measured}, documented order {order}')
    else:
        r.check(measured >= 1, 'rk-order', f'{name}: not even first order (measured {measured})')
        r.observe('rk_untabulated', f'{name}:{measured}')
    if cls.is_embedded():
        upd = cls.get_update_order()
        r.check(sec >= upd, 'rk-embedded-difference-order', f'{name}: primary - secondary has its first non-zero Taylor coefficient at order {sec}, the step-size controller assumes {upd}')
    r.nontrivial = True
    r.observe('rk_class', f'{name}:{measured}:{sec}')
    r.sample = dict(cls=name, measured_order=measured, documented=order, embedded_difference_order=sec)


def run_rkn(case, r):
    """Runge-Kutta-Nystrom sweepers (second-order problems, particle data): observed local order on the Penning trap with
    random admissible trap parameters and initial data; documented global orders RKN 4, Velocity_Verlet 2."""
    import pySDC.implementations.sweeper_classes.Runge_Kutta_Nystrom as RN
    from pySDC.implementations.controller_classes.controller_nonMPI import controller_nonMPI
    from pySDC.implementations.problem_classes.PenningTrap_3D import penningtrap

    cls = getattr(RN, case['cls'])
    order = dict(RKN=4, Velocity_Verlet=2)[case['cls']]
    rng = np.random.default_rng(case['seed'])
    wE = float(rng.uniform(1.0, 6.0))
    wB = float(rng.uniform(2.2, 6.0)) * wE
    u0 = np.array([[float(rng.uniform(1, 12)), float(rng.uniform(-3, 3)), float(rng.uniform(-3, 3))], [float(rng.uniform(-50, 50)), float(rng.uniform(-50, 50)), float(rng.uniform(-50, 50))], [1], [1]], dtype=object)
    r.key = f"rkn/{case['cls']}/{wB:.3f}/{wE:.3f}"
    errs = []
    dts = [case['dt0'] / 2**i for i in range(4)]
    for dt in dts:
        desc = dict(problem_class=penningtrap, problem_params=dict(omega_B=wB, omega_E=wE, u0=u0, nparts=1, sig=0.1), sweeper_class=cls, sweeper_params=dict(), level_params=dict(dt=dt), step_params=dict(maxiter=1))
        ctrl = controller_nonMPI(1, dict(logger_level=50, dump_setup=False), desc)
        P = ctrl.MS[0].levels[0].prob
        with np.errstate(all='ignore'):
            uend, _ = ctrl.run(P.u_exact(0.0), 0.0, dt)
            ue = P.u_exact(dt)
        errs.append((float(np.max(np.abs(np.asarray(uend.pos) - np.asarray(ue.pos)))), float(np.max(np.abs(np.asarray(uend.vel) - np.asarray(ue.vel))))))
    for comp, name in ((0, 'position'), (1, 'velocity')):
        e = [x[comp] for x in errs]
        if min(e) < 1e-12 * max(1.0, float(np.max(np.abs(np.asarray(ue.pos, dtype=float))))) or not np.all(np.isfinite(e)):
            r.count('rkn_error_at_roundoff')
            continue
        rates = [float(np.log2(e[i] / e[i + 1])) for i in range(len(e) - 1)]
        # local error of a method of order p behaves like dt^(p+1); the last two halvings are in the asymptotic regime
        r.check(min(rates[-2:]) >= order + 1 - 0.3, 'rk-order', f'{r.key}: local {name} errors {e} for dt {dts} give rates {rates}, documented order {order} needs {order + 1}')
        r.count('rkn_rates')
    r.nontrivial = True
    r.observe('rk_class', f"{case['cls']}:local-rate")
    r.sample = dict(case={k: v for k, v in case.items() if not k.startswith('_')}, errors=errs)


def run_case(case):
    r = Result(case)
    if case['kind'] == 'sdc':
        run_sdc(case, r)
    elif case['kind'] == 'rkn':
        run_rkn(case, r)
    else:
        run_rk(case, r)
    r.count('kind:' + case['kind'])
    return r


def finalize(agg):
    out = []
    c = agg['counters']
    for k in ('oracle:sdc-order-min-k-p', 'oracle:converged-is-collocation-stability-function', 'oracle:rk-order', 'oracle:rk-embedded-difference-order'):
        if c.get(k, 0) == 0:
            out.append(f'monitor {k} never evaluated')
    if len(agg['seen'].get('rk_class', ())) < 15:
        out.append('fewer than 15 RK classes were driven')
    for role in ('impl', 'expl', 'imex'):
        if role not in agg['seen'].get('role', ()):
            out.append(f'role {role} never ran')
    for k, why in (('rk_steps_with_changed_dt', 'no Runge-Kutta step with a changed step size was judged'), ('sdc_steps_with_changed_dt', 'no SDC step with a changed step size was judged'), ('rkn_rates', 'no Runge-Kutta-Nystrom rate was measured')):
        if c.get(k, 0) == 0:
            out.append(why)
    return out
