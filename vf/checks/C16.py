"""C16 — field files round-trip bit-exactly and survive interrupted appends.

Crash model: prefix persistence.  The real append is performed on a copy and EVERY byte prefix between the old and
the new file size is materialised with os.truncate and handed to the real reader / appender.
"""

import os
import shutil
import subprocess
import sys
import tempfile

import numpy as np

from vf.core import Result

PROPERTY = 'C16'
LEVEL = 'fault_enumeration'
TECHNIQUE = 'crash-point enumeration (every byte prefix of every append and of header creation) + bit-exact round-trip oracle + exhaustive rank/cover check of the block decomposition'
RULE = (
    'kind=file: one file shape (Scalar/Rectilinear, dtype, nVar 1..6, 0-3-D grid, coordinates, number of fields) driven through write / re-open / read / append interleavings and, '
    'for one append and for header creation, every byte prefix as a torn file; kind=blocks: one (algorithm, nProcs 1..64, grid) with all ranks; kind=logfile: LogToFile write-stop-resume; '
    'non-trivial = >=1 record read back and compared bitwise (file) / all ranks covered (blocks); distinct by shape'
)
ASSUMPTIONS = [
    'crash model = prefix persistence of append-only writes (no reordered or partial-sector persistence)',
    'serial code path only (MPI-IO branch needs mpi4py)',
    'bit identity judged on raw bytes of times and fields',
]
EXHAUSTIVE = {'quick': True, 'thorough': True}


def cases(tier, seed):
    rng = np.random.default_rng(seed + 1616)
    cs = []
    nfile = 60 if tier == 'quick' else 900
    for i in range(nfile):
        kind = 'Scalar' if i % 3 == 0 else 'Rectilinear'
        dim = int(rng.integers(0, 4)) if kind == 'Rectilinear' else 0
        if kind == 'Rectilinear' and dim == 0 and i % 2:
            dim = 1
        sizes = [int(rng.integers(1, 5)) for _ in range(dim)]
        cs.append(dict(kind='file', struct=kind, dt=int(rng.integers(0, 6)), nVar=int(rng.integers(1, 7)), sizes=sizes, n0=int(rng.integers(0, 5)), k=int(rng.integers(1, 4)),
                       seed=int(rng.integers(0, 2**31)), subproc=bool(i % 10 == 0), _cost=10 + 40 * int(np.prod(sizes or [1]))))
    grids = []
    for d in (1, 2, 3):
        for _ in range(20 if tier == 'quick' else 120):
            grids.append([int(rng.integers(1, 70)) for _ in range(d)])
    for g in grids:
        cs.append(dict(kind='blocks', grid=g, _cost=5))
    for i in range(4 if tier == 'quick' else 40):
        cs.append(dict(kind='logfile', seed=int(rng.integers(0, 2**31)), procs=int(rng.integers(1, 4)), _cost=30))
    for i in range(4 if tier == 'quick' else 24):
        cs.append(dict(kind='bigfile', struct=['Rectilinear', 'Scalar'][i % 2], n=int(rng.integers(24, 80)), gib=float(rng.choice([2.1, 4.2, 2.0001, 8.5])), seed=int(rng.integers(0, 2**31)), _cost=10))
    return cs


def _dtypes():
    from pySDC.helpers.fieldsIO import DTYPES

    return DTYPES


def rand_field(rng, dtype, shape):
    a = rng.standard_normal(shape)
    if np.issubdtype(dtype, np.complexfloating):
        a = a + 1j * rng.standard_normal(shape)
    a = np.asarray(a, dtype=dtype)
    # the same values in another memory layout: the file holds the values by index, whatever the layout of the array handed in
    lay = int(rng.integers(0, 4))
    if a.ndim >= 2 and lay == 1:
        a = np.asfortranarray(a)
    elif a.ndim >= 1 and lay == 2 and a.shape[-1] >= 1:
        big = np.zeros(a.shape[:-1] + (2 * a.shape[-1],), dtype=a.dtype)
        big[..., ::2] = a
        a = big[..., ::2]  # strided view
    elif a.ndim >= 2 and lay == 3:
        a = np.ascontiguousarray(np.moveaxis(a, 0, -1))
        a = np.moveaxis(a, -1, 0)  # permuted-axes view
    return a


def make(case, path, rng):
    from pySDC.helpers.fieldsIO import Rectilinear, Scalar

    DT = _dtypes()
    keys = sorted(DT)
    dtype = DT[keys[case['dt'] % len(keys)]]
    # every third handle is configured twice: a first header (other sizes) is set and the derived sizes are queried, as a caller
    # estimating the output volume would, before the header that is actually written replaces it
    twice = case['seed'] % 3 == 0

    def ask(h):
        return (h.hSize, h.itemSize, h.tSize, h.fSize, h.nItems)

    if case['struct'] == 'Scalar':
        f = Scalar(dtype, path)
        if twice:
            f.setHeader(nVar=case['nVar'] + 1 + case['seed'] % 4)
            ask(f)
        f.setHeader(nVar=case['nVar'])
        shape = (case['nVar'],)
        hdr = dict(nVar=case['nVar'])
    else:
        coords = [np.sort(rng.uniform(-5, 5, n)) for n in case['sizes']]
        f = Rectilinear(dtype, path)
        if twice:
            other = [np.linspace(0, 1, n + 1 + (case['seed'] + j) % 5) for j, n in enumerate(case['sizes'])]
            f.setHeader(nVar=case['nVar'] + case['seed'] % 2, coords=other)
            ask(f)
        f.setHeader(nVar=case['nVar'], coords=coords)
        shape = (case['nVar'], *case['sizes'])
        hdr = dict(nVar=case['nVar'], coords=[c.copy() for c in coords])
    return f, dtype, shape, hdr


def same_bits(a, b):
    a, b = np.ascontiguousarray(a), np.ascontiguousarray(b)
    return a.dtype == b.dtype and a.shape == b.shape and a.tobytes() == b.tobytes()


def check_contents(r, tag, reader, recs, shape, clause='roundtrip'):
    """reader: a FieldsIO; recs: list of (time, field) expected"""
    n = reader.nFields
    r.check(n == len(recs), clause + '-count', f'{tag}: reader reports {n} fields, {len(recs)} complete records were written')
    if n != len(recs):
        return False
    ts = reader.times
    r.check(len(ts) == n and all(np.float64(a).tobytes() == np.float64(b[0]).tobytes() for a, b in zip(ts, recs)), clause + '-times', f'{tag}: times {ts} differ from those written')
    ok = True
    for i, (t, fld) in enumerate(recs):
        for idx in (i, i - n):
            tt, ff = reader.readField(idx)
            good = np.float64(tt).tobytes() == np.float64(t).tobytes() and same_bits(np.asarray(ff).reshape(shape), fld.reshape(shape))
            r.check(good, clause + '-field-bits', f'{tag}: field at index {idx} is not bit-identical to record {i}')
            r.check(np.float64(reader.time(idx)).tobytes() == np.float64(t).tobytes(), clause + '-time-bits', f'{tag}: time({idx}) differs')
            ok = ok and good
    for bad in (n, -n - 1):
        try:
            reader.readField(bad)
            r.check(False, clause + '-out-of-range', f'{tag}: reading index {bad} of {n} fields did not raise')
        except (AssertionError, IndexError, ValueError):
            r.check(True, clause + '-out-of-range', '')
    return ok


def check_header(r, tag, reader, case, hdr):
    r.check(int(reader.header['nVar']) == hdr['nVar'], 'header-nVar', f'{tag}: nVar {reader.header["nVar"]} != {hdr["nVar"]}')
    if 'coords' in hdr:
        rc = reader.header['coords']
        r.check(len(rc) == len(hdr['coords']) and all(same_bits(np.asarray(a, dtype=np.float64), b) for a, b in zip(rc, hdr['coords'])), 'header-coords', f'{tag}: coordinates not bit-identical')


def run_file(case, r):
    from pySDC.helpers.fieldsIO import FieldsIO, Rectilinear, Scalar

    rng = np.random.default_rng(case['seed'])
    tmp = tempfile.mkdtemp(prefix='vf_c16_')
    try:
        path = os.path.join(tmp, 'a.pysdc')
        FieldsIO.ALLOW_OVERWRITE = False
        f, dtype, shape, hdr = make(case, path, rng)
        tag = f"{case['struct']}/{np.dtype(dtype).name}/nVar{case['nVar']}/{case['sizes']}/n0={case['n0']}/k={case['k']}"
        r.key = tag
        f.initialize()
        hsize = os.path.getsize(path)
        recs = []
        for i in range(case['n0']):
            t = float(rng.uniform(0, 10))
            fld = rand_field(rng, dtype, shape)
            f.addField(t, fld)
            recs.append((t, fld.copy()))
        # ---- round trip through the writer object, the generic reader and the specialised reader
        check_contents(r, tag, f, recs, shape)
        g = FieldsIO.fromFile(path)
        r.check(type(g) is type(f), 'reader-class', f'{tag}: generic reader returned {type(g).__name__}')
        check_header(r, tag, g, case, hdr)
        check_contents(r, tag, g, recs, shape)
        spec = (Scalar if case['struct'] == 'Scalar' else Rectilinear).fromFile(path)
        check_contents(r, tag, spec, recs, shape)
        # ---- overwrite protection
        before = open(path, 'rb').read()
        f2, *_ = make(case, path, np.random.default_rng(case['seed']))
        try:
            f2.initialize()
            r.check(False, 'no-overwrite', f'{tag}: initialize() on an existing file did not raise although ALLOW_OVERWRITE is False')
        except FileExistsError:
            r.check(open(path, 'rb').read() == before, 'no-overwrite', f'{tag}: existing file changed by a refused initialize()')
        # ---- overwrite protection does not depend on what the existing file contains: empty, shorter than the new header,
        # another valid (smaller) FieldsIO file with records, a long foreign file
        small = os.path.join(tmp, 'small.pysdc')
        fs = Scalar(np.float64, small)
        fs.setHeader(nVar=1)
        fs.initialize()
        for i in range(3):
            fs.addField(float(i), np.array([float(i)]))
        victims = {'empty': b'', 'short': bytes(rng.integers(0, 256, int(rng.integers(1, max(2, hsize))), dtype=np.uint8)), 'other-fieldsio-file-with-records': open(small, 'rb').read(),
                   'long': bytes(rng.integers(0, 256, hsize + int(rng.integers(1, 500)), dtype=np.uint8))}
        for vname, content in victims.items():
            vp = os.path.join(tmp, f'victim_{vname}.pysdc')
            with open(vp, 'wb') as fh:
                fh.write(content)
            f3, *_ = make(case, vp, np.random.default_rng(case['seed']))
            try:
                f3.initialize()
                r.check(False, 'no-overwrite', f'{tag}: initialize() replaced an existing {vname} file of {len(content)} bytes (new header {hsize} bytes) although ALLOW_OVERWRITE is False')
            except FileExistsError:
                r.check(open(vp, 'rb').read() == content, 'no-overwrite', f'{tag}: existing {vname} file changed by a refused initialize()')
            r.count('overwrite_victims')
        FieldsIO.ALLOW_OVERWRITE = True
        try:
            vp = os.path.join(tmp, 'victim_short.pysdc')
            f4, *_ = make(case, vp, np.random.default_rng(case['seed']))
            f4.initialize()
            r.check(os.path.getsize(vp) == hsize and FieldsIO.fromFile(vp).nFields == 0, 'overwrite-when-enabled', f'{tag}: with ALLOW_OVERWRITE enabled initialize() did not produce a fresh file')
        finally:
            FieldsIO.ALLOW_OVERWRITE = False
        # ---- append through the re-opened object, interleaved with reads
        for i in range(case['k']):
            t = float(rng.uniform(0, 10))
            fld = rand_field(rng, dtype, shape)
            (g if i % 2 == 0 else f).addField(t, fld)
            recs.append((t, fld.copy()))
            check_contents(r, tag, FieldsIO.fromFile(path), recs, shape)
        if recs:
            r.nontrivial = True
        if case['subproc'] and recs:
            code = (
                'import sys, numpy as np\nfrom pySDC.helpers.fieldsIO import FieldsIO\n'
                f'f = FieldsIO.fromFile({path!r})\n'
                'import hashlib\nh = hashlib.blake2b()\n'
                'for i in range(f.nFields):\n    t, u = f.readField(i)\n    h.update(np.float64(t).tobytes()); h.update(np.ascontiguousarray(u).tobytes())\n'
                'print(f.nFields, h.hexdigest())\n'
            )
            out = subprocess.run([sys.executable, '-c', code], capture_output=True, text=True, timeout=300, env=dict(os.environ))
            import hashlib

            h = hashlib.blake2b()
            for t, fld in recs:
                h.update(np.float64(t).tobytes())
                h.update(np.ascontiguousarray(fld).tobytes())
            r.check(out.returncode == 0 and out.stdout.split() == [str(len(recs)), h.hexdigest()], 'fresh-process-roundtrip', f'{tag}: a fresh process reads {out.stdout.strip()!r} (rc {out.returncode}) {out.stderr[-300:]}')
        # ---- crash points of one more append: every byte prefix
        full = os.path.join(tmp, 'full.pysdc')
        shutil.copy(path, full)
        old_size = os.path.getsize(full)
        t_new = float(rng.uniform(0, 10))
        fld_new = rand_field(rng, dtype, shape)
        FieldsIO.fromFile(full).addField(t_new, fld_new)
        new_size = os.path.getsize(full)
        rec_size = new_size - old_size
        r.check(rec_size == 8 + fld_new.nbytes, 'record-size', f'{tag}: an append grew the file by {rec_size} bytes, expected {8 + fld_new.nbytes}')
        full_bytes = open(full, 'rb').read()
        torn = os.path.join(tmp, 'torn.pysdc')
        cuts = list(range(old_size + 1, new_size))
        if len(cuts) > 400:
            # keep every offset near the record boundaries and the time/field boundary, sample the middle (counted, not claimed exhaustive)
            keep = set(cuts[:40] + cuts[-40:] + list(range(old_size + 1, old_size + 20)))
            keep.update(int(x) for x in rng.choice(cuts, 300, replace=False))
            cuts = sorted(keep)
            r.count('crash_axis_sampled_files')
        else:
            r.count('crash_axis_exhaustive_files')
        for cut in cuts:
            with open(torn, 'wb') as fh:
                fh.write(full_bytes[:cut])
            rd = FieldsIO.fromFile(torn)
            ok = check_contents(r, f'{tag} torn at byte {cut - old_size}/{rec_size} of the appended record', rd, recs, shape, clause='torn-read')
            r.count('torn_files')
            # append after the crash: the new records must be readable at the following indices
            if (cut - old_size) % 7 == 1 or cut - old_size in (1, 7, 8, 9, rec_size - 1):
                more = []
                w = FieldsIO.fromFile(torn)
                for j in range(2):
                    t = float(rng.uniform(0, 10))
                    fld = rand_field(rng, dtype, shape)
                    w.addField(t, fld)
                    more.append((t, fld.copy()))
                rd2 = FieldsIO.fromFile(torn)
                n = rd2.nFields
                good = n == len(recs) + 2
                if good:
                    for j, (t, fld) in enumerate(more):
                        tt, ff = rd2.readField(len(recs) + j)
                        good = good and np.float64(tt).tobytes() == np.float64(t).tobytes() and same_bits(np.asarray(ff).reshape(shape), fld.reshape(shape))
                    for j, (t, fld) in enumerate(recs):
                        tt, ff = rd2.readField(j)
                        good = good and np.float64(tt).tobytes() == np.float64(t).tobytes() and same_bits(np.asarray(ff).reshape(shape), fld.reshape(shape))
                r.check(good, 'append-after-torn-record', f'{tag}: after a crash {cut - old_size} bytes into an append, re-opening and appending 2 fields gives {n} fields (expected {len(recs) + 2}) or wrong contents at the new indices')
                r.count('append_after_crash')
        # ---- crash points of header creation
        hbytes = full_bytes[:hsize]
        for cut in range(0, hsize + 1):
            with open(torn, 'wb') as fh:
                fh.write(hbytes[:cut])
            try:
                rd = FieldsIO.fromFile(torn)
                n = rd.nFields
                r.check(n == 0, 'torn-header', f'{tag}: a file holding only {cut}/{hsize} header bytes reports {n} fields')
            except Exception:  # noqa
                r.check(True, 'torn-header', '')
            r.count('torn_headers')
        r.observe('struct_dtype', f"{case['struct']}/{np.dtype(dtype).name}")
        r.observe('dim', len(case['sizes']))
        r.sample = dict(case={k: v for k, v in case.items() if not k.startswith('_')}, record_bytes=rec_size, header_bytes=hsize, crash_points=len(cuts))
    finally:
        shutil.rmtree(tmp, ignore_errors=True)


def run_blocks(case, r):
    from pySDC.helpers.blocks import BlockDecomposition

    grid = case['grid']
    r.key = f'blocks/{grid}'
    for algo, order in (('Hybrid', 'C'), ('ChatGPT', 'C'), ('Hybrid', 'F'), ('ChatGPT', 'F')):
        for nProcs in range(1, 65):
            owner = np.zeros(grid, dtype=int)
            try:
                nb = None
                for rank in range(nProcs):
                    b = BlockDecomposition(nProcs, list(grid), algo=algo, gRank=rank, order=order)
                    nb = list(b.nBlocks)
                    iLoc, nLoc = b.localBounds
                    sl = tuple(slice(i, i + n) for i, n in zip(iLoc, nLoc))
                    r.check(all(i >= 0 and n >= 0 and i + n <= g for i, n, g in zip(iLoc, nLoc, grid)), 'block-inside-grid', f'{algo}/{order} nProcs={nProcs} grid={grid} rank={rank}: bounds {iLoc} {nLoc}')
                    owner[sl] += 1
                r.check(int(np.prod(nb)) == nProcs, 'blocks-product', f'{algo}/{order} nProcs={nProcs} grid={grid}: nBlocks {nb}')
                r.check(bool(np.all(owner == 1)), 'every-point-owned-once', f'{algo}/{order} nProcs={nProcs} grid={grid}: ownership counts min {owner.min()} max {owner.max()}')
            except (IndexError, AssertionError) as e:
                r.check(False, 'blocks-no-exception', f'{algo} nProcs={nProcs} grid={grid}: {type(e).__name__}: {e}')
            r.count('decompositions')
    r.nontrivial = True
    r.observe('blocks_dim', len(grid))
    r.sample = dict(grid=grid)


def run_bigfile(case, r):
    """record offsets beyond 2 GiB: a sparse file (no disk space needed) holds one real record at the start and one behind
    the 2 GiB mark; the writer object and a re-opened handle must both address it"""
    from pySDC.helpers.fieldsIO import FieldsIO, Rectilinear, Scalar

    rng = np.random.default_rng(case['seed'])
    tmp = tempfile.mkdtemp(prefix='vf_c16_')
    r.key = f"bigfile/{case['struct']}/{case['n']}"
    tag = r.key
    try:
        path = os.path.join(tmp, 'big.pysdc')
        FieldsIO.ALLOW_OVERWRITE = False
        n = case['n']
        if case['struct'] == 'Scalar':
            f = Scalar(np.float64, path)
            f.setHeader(nVar=n * n)
            shape = (n * n,)
        else:
            f = Rectilinear(np.float64, path)
            f.setHeader(nVar=2, coords=[np.linspace(0, 1, n), np.linspace(0, 1, n)])
            shape = (2, n, n)
        f.initialize()
        u = rng.standard_normal(shape)
        f.addField(0.5, u)
        rec, hs = int(f.tSize) + int(f.fSize), int(f.hSize)
        nrec = int(case['gib'] * 2**30 // rec) + 1
        try:
            with open(path, 'r+b') as fh:
                fh.truncate(hs + nrec * rec)
            if os.stat(path).st_blocks * 512 > 64 * 2**20:
                raise OSError('file system does not keep the file sparse')
        except OSError as e:
            r.count('sparse_files_unsupported')
            r.check(True, 'noop', '')
            return
        v = rng.standard_normal(shape)
        f.addField(1.5, v)
        for who, h in (('writer object', f), ('re-opened handle', None)):
            try:
                h = h or FieldsIO.fromFile(path)
                r.check(int(h.nFields) == nrec + 1, 'large-file-record-count', f'{tag}: {who} reports {h.nFields} records, the file holds {nrec + 1} ({os.path.getsize(path) / 2**30:.2f} GiB apparent size)')
                t0_, a = h.readField(0)
                t1_, b = h.readField(nrec)
                r.check(t0_ == 0.5 and t1_ == 1.5 and same_bits(np.asarray(a).reshape(shape), u) and same_bits(np.asarray(b).reshape(shape), v), 'large-file-roundtrip', f'{tag}: {who} does not return the records before and behind the 2 GiB mark bit-exactly')
            except Exception as e:  # noqa
                r.check(False, 'large-file-roundtrip', f'{tag}: {who} fails on a file of {os.path.getsize(path) / 2**30:.2f} GiB: {type(e).__name__}: {e}')
        try:
            g = FieldsIO.fromFile(path)
            w = rng.standard_normal(shape)
            g.addField(2.5, w)
            t2_, c = FieldsIO.fromFile(path).readField(nrec + 1)
            r.check(t2_ == 2.5 and same_bits(np.asarray(c).reshape(shape), w), 'large-file-roundtrip', f'{tag}: a field appended through a re-opened handle behind the 2 GiB mark is not read back exactly')
        except Exception as e:  # noqa
            r.check(False, 'large-file-roundtrip', f'{tag}: appending through a re-opened handle fails on a file of {os.path.getsize(path) / 2**30:.2f} GiB: {type(e).__name__}: {e}')
        r.count('large_files')
        r.nontrivial = True
        r.sample = dict(case={k: v_ for k, v_ in case.items() if not k.startswith('_')}, records=nrec + 2)
    finally:
        shutil.rmtree(tmp, ignore_errors=True)


def run_logfile(case, r):
    """LogToFile: write, stop, resume into the same file; the file then holds every logged solution once, bit-identical to LogSolution's record"""
    from pySDC.helpers.fieldsIO import FieldsIO
    from pySDC.helpers.stats_helper import get_sorted
    from pySDC.implementations.controller_classes.controller_nonMPI import controller_nonMPI
    from pySDC.implementations.hooks.log_solution import LogSolution, LogToFile
    from pySDC.implementations.problem_classes.TestEquation_0D import testequation0d
    from pySDC.implementations.sweeper_classes.generic_implicit import generic_implicit

    rng = np.random.default_rng(case['seed'])
    tmp = tempfile.mkdtemp(prefix='vf_c16_')
    r.key = f"logfile/{case['procs']}/{case['seed']}"
    try:
        path = os.path.join(tmp, 'run.pySDC')

        class L2F(LogToFile):
            filename = path
            time_increment = 0
            allow_overwriting = False

        FieldsIO.ALLOW_OVERWRITE = False
        dt = 0.125
        desc = dict(problem_class=testequation0d, problem_params=dict(lambdas=np.array([-1.0, -0.5 + 1j]), u0=1.0), sweeper_class=generic_implicit,
                    sweeper_params=dict(num_nodes=2, quad_type='RADAU-RIGHT'), level_params=dict(dt=dt, restol=-1), step_params=dict(maxiter=2))
        n1, n2 = int(rng.integers(1, 5)) * case['procs'], int(rng.integers(1, 5)) * case['procs']
        ctrl = controller_nonMPI(case['procs'], dict(logger_level=50, dump_setup=False, hook_class=[L2F, LogSolution]), desc)
        P = ctrl.MS[0].levels[0].prob
        u0 = P.u_exact(0.0)
        u1, st1 = ctrl.run(u0, 0.0, n1 * dt)
        ctrl2 = controller_nonMPI(case['procs'], dict(logger_level=50, dump_setup=False, hook_class=[L2F, LogSolution]), desc)
        u2, st2 = ctrl2.run(u1, n1 * dt, (n1 + n2) * dt)
        exp = [(0.0, u0)] + list(get_sorted(st1, type='u', sortby='time')) + list(get_sorted(st2, type='u', sortby='time'))
        f = FieldsIO.fromFile(path)
        r.check(f.nFields == len(exp), 'logfile-count', f'{r.key}: file holds {f.nFields} records, the two runs logged {len(exp)} solutions (incl. initial value)')
        if f.nFields == len(exp):
            for i, (t, u) in enumerate(exp):
                tt, ff = f.readField(i)
                r.check(abs(tt - t) <= 1e-12 and same_bits(np.asarray(ff).reshape(-1), np.asarray(P.processSolutionForOutput(u)).reshape(-1)), 'logfile-record', f'{r.key}: record {i} (t={tt}) differs from the logged solution at t={t}')
        r.nontrivial = True
        r.observe('logfile', case['procs'])
        r.sample = dict(case={k: v for k, v in case.items() if not k.startswith('_')}, records=f.nFields)
    finally:
        shutil.rmtree(tmp, ignore_errors=True)


def run_case(case):
    r = Result(case)
    dict(file=run_file, blocks=run_blocks, logfile=run_logfile, bigfile=run_bigfile)[case['kind']](case, r)
    r.count('kind:' + case['kind'])
    return r


def finalize(agg):
    out = []
    c = agg['counters']
    for k in ('oracle:roundtrip-field-bits', 'oracle:torn-read-count', 'oracle:append-after-torn-record', 'oracle:torn-header', 'oracle:every-point-owned-once', 'oracle:no-overwrite', 'oracle:fresh-process-roundtrip'):
        if c.get(k, 0) == 0:
            out.append(f'monitor {k} never evaluated')
    if c.get('torn_files', 0) < 100:
        out.append('fewer than 100 torn files were produced')
    if c.get('overwrite_victims', 0) == 0:
        out.append('overwrite protection never tried on foreign files')
    return out


def coverage_extra(agg, tier):
    c = agg['counters']
    return dict(torn_files=c.get('torn_files', 0), torn_headers=c.get('torn_headers', 0), appends_after_crash=c.get('append_after_crash', 0), decompositions=c.get('decompositions', 0),
                exhaustive_note='crash axis: every byte prefix of the appended record for files counted in crash_axis_exhaustive_files (records <= 400 bytes), boundaries + 300 sampled offsets otherwise; header: every prefix; ranks: all ranks of nProcs 1..64 for both algorithms')
