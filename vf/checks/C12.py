"""C12 — every problem class honours the solver contract the sweepers rely on.

Runtime contracts wrapped around eval_f / solve_system(_1/_2) / u_exact of every importable problem class:
argument digests unchanged, fresh result objects of the declared data type, residual of the implicit solve (evaluated by a
twin instance) within the configured solver tolerance incl. factor = 0, sibling splittings summing to the same right-hand side,
closed-form solutions consistent with their initial value and their own right-hand side.  The contracts are exercised by direct
calls with generated admissible (state, rhs, t, factor) and, left switched on, from inside real SDC runs.
"""

import numpy as np

from vf.core import Result, digest

PROPERTY = 'C12'
LEVEL = 'exploration'
TECHNIQUE = 'runtime contracts (pre/post-conditions with argument digests and twin-instance residual oracle) on eval_f / solve_system of every problem class'
RULE = (
    'one case = one problem class variant (constructor arguments from a per-class table: tiny grids, each solver type / boundary variant offered) with a seeded batch of admissible states '
    '(closed-form solution plus perturbation), times and factors {0} + 10^[-6,2]; kind=run: a real SDC run with the contracts left on; kind=sibling: one pair of splittings; '
    'non-trivial = >= 1 solve judged by the residual oracle (or eval_f contract for classes without implicit solver); distinct by (class, variant)'
)
ASSUMPTIONS = [
    'the implicit piece is the one the class documents: f (unsplit), f.impl (IMEX), f.comp1 / f.comp2 with solve_system_1/_2 (multi-implicit); it is evaluated by a twin instance built from the same arguments',
    'residual bound c*tol*(1+|rhs|) with tol = the configured newton_tol / lintol (1e-11 for direct solves) and c = 20; states are the closed-form / initial solution plus a 1e-3 relative perturbation so that model-specific admissibility (positivity, switching regime) holds',
    'spectral (Chebyshev/ultraspherical) problems, whose solves carry boundary rows and a mass matrix, are only checked for argument preservation and result types; particle problems have no implicit solver',
]
EXHAUSTIVE = {'quick': False, 'thorough': False}
PC = 'pySDC.implementations.problem_classes.'

# name -> (module, class, list of constructor variants, options)
SPECS = {}


def spec(mod, cls, variants, **opt):
    SPECS[cls] = dict(mod=mod, cls=cls, variants=variants, **opt)


spec('AcousticAdvection_1D_FD_imex', 'acoustic_1d_imex', [dict(nvars=(2, 32), cs=0.5, cadv=0.1, order_adv=5, waveno=2)], tol=1e-10)
spec('AdvectionDiffusionEquation_1D_FFT', 'advectiondiffusion1d_imex', [dict(nvars=16, c=1.0, freq=2, nu=0.02), dict(nvars=16, c=0.5, freq=-1, nu=0.1)], tol=1e-11)
spec('AdvectionDiffusionEquation_1D_FFT', 'advectiondiffusion1d_implicit', [dict(nvars=16, c=1.0, freq=2, nu=0.02)], tol=1e-11)
spec('AdvectionEquation_ND_FD', 'advectionNd', [dict(nvars=16, c=1.0, freq=2, stencil_type='center', order=2, bc='periodic'), dict(nvars=16, c=0.7, freq=2, stencil_type='upwind', order=3, bc='periodic'),
     dict(nvars=16, c=1.0, freq=2, solver_type='GMRES', lintol=1e-11, bc='periodic'), dict(nvars=(8, 8), c=1.0, freq=(2, 2), bc='periodic')], tol=1e-11, itertol={'GMRES': 1e-9, 'CG': 1e-9})
spec('AllenCahn_1D_FD', 'allencahn_front_fullyimplicit', [dict(nvars=15, newton_tol=1e-11)], tol='newton_tol')
spec('AllenCahn_1D_FD', 'allencahn_front_semiimplicit', [dict(nvars=15, newton_tol=1e-11)], tol=1e-11)
spec('AllenCahn_1D_FD', 'allencahn_front_finel', [dict(nvars=15, newton_tol=1e-11)], tol='newton_tol', finel=True)
spec('AllenCahn_1D_FD', 'allencahn_periodic_fullyimplicit', [dict(nvars=16, newton_tol=1e-11)], tol='newton_tol')
spec('AllenCahn_1D_FD', 'allencahn_periodic_semiimplicit', [dict(nvars=16, newton_tol=1e-11)], tol=1e-11)
spec('AllenCahn_1D_FD', 'allencahn_periodic_multiimplicit', [dict(nvars=16, newton_tol=1e-11)], tol='newton_tol', multi=True)
spec('AllenCahn_2D_FD', 'allencahn_fullyimplicit', [dict(nvars=(8, 8), newton_tol=1e-10, lin_tol=1e-12, lin_maxiter=500)], tol='newton_tol', tmax=0.0)
spec('AllenCahn_2D_FD', 'allencahn_semiimplicit', [dict(nvars=(8, 8), lin_tol=1e-12, lin_maxiter=500)], tol=1e-9, tmax=0.0)
spec('AllenCahn_2D_FD', 'allencahn_semiimplicit_v2', [dict(nvars=(8, 8), newton_tol=1e-10, lin_tol=1e-12, lin_maxiter=500)], tol='newton_tol', tmax=0.0)
spec('AllenCahn_2D_FD', 'allencahn_multiimplicit', [dict(nvars=(8, 8), newton_tol=1e-10, lin_tol=1e-12, lin_maxiter=500)], tol='newton_tol', multi=True, tol1=1e-9, tmax=0.0)
spec('AllenCahn_2D_FD', 'allencahn_multiimplicit_v2', [dict(nvars=(8, 8), newton_tol=1e-10, lin_tol=1e-12, lin_maxiter=500)], tol='newton_tol', multi=True, tmax=0.0)
spec('AllenCahn_2D_FFT', 'allencahn2d_imex', [dict(nvars=(8, 8), nu=2, eps=0.04), dict(nvars=(8, 8), nu=1, eps=0.05)], tol=1e-11)
spec('AllenCahn_2D_FFT', 'allencahn2d_imex_stab', [dict(nvars=(8, 8), nu=2, eps=0.04), dict(nvars=(8, 8), nu=1, eps=0.05)], tol=1e-11)
spec('Auzinger_implicit', 'auzinger', [dict(newton_maxiter=100, newton_tol=1e-11)], tol='newton_tol')
spec('Battery', 'battery', [dict(ncapacitors=1, V_ref=np.array([1.0]), C=np.array([1.0]))], tol=1e-11, tmax=0.0)
spec('Battery', 'battery_implicit', [dict(ncapacitors=1, V_ref=np.array([1.0]), C=np.array([1.0]), newton_tol=1e-11)], tol='newton_tol', tmax=0.0)
spec('Battery', 'battery_n_capacitors', [dict(ncapacitors=2, V_ref=np.array([1.0, 1.0]), C=np.array([1.0, 1.0]))], tol=1e-11, tmax=0.0)
spec('Boussinesq_2D_FD_imex', 'boussinesq_2d_imex', [dict(nvars=(4, 8, 4), c_s=0.3, u_adv=0.02, Nfreq=0.01, x_bounds=(-3.0, 3.0), z_bounds=(0.0, 1.0), order_upw=5, order=4, gmres_maxiter=500, gmres_restart=10, gmres_tol_limit=1e-10)], tol=1e-8, raw_kw=True, tmax=0.0)
spec('BuckConverter', 'buck_converter', [dict()], tol=1e-11, tmax=0.0)
spec('DiscontinuousTestODE', 'DiscontinuousTestODE', [dict(newton_tol=1e-11)], tol='newton_tol', t0=1.0, tmax=0.5, skip_factors=(1.0,))
spec('DiscontinuousTestODE', 'ExactDiscontinuousTestODE', [dict(newton_tol=1e-11)], tol='newton_tol', t0=1.0, tmax=0.5, exact_solver=True)
spec('FastWaveSlowWave_0D', 'swfw_scalar', [dict(lambda_s=np.array([-1.0, -0.3j]), lambda_f=np.array([-100.0, 5j]), u0=1.0)], tol=1e-12)
spec('GeneralizedFisher_1D_FD_implicit', 'generalized_fisher', [dict(nvars=15, nu=1.0, lambda0=2.0, newton_tol=1e-11), dict(nvars=15, nu=2.0, lambda0=1.5, newton_tol=1e-11), dict(nvars=31, nu=0.5, lambda0=3.0, newton_tol=1e-11)], tol='newton_tol')
spec('HeatEquation_ND_FD', 'heatNd_unforced', [dict(nvars=15, nu=0.1, freq=2, bc='dirichlet-zero'), dict(nvars=16, nu=0.3, freq=2, bc='periodic'), dict(nvars=15, nu=0.1, freq=2, bc='neumann-zero'),
     dict(nvars=15, nu=0.1, freq=1, bc='dirichlet-zero', solver_type='CG', lintol=1e-12), dict(nvars=15, nu=0.1, freq=1, bc='dirichlet-zero', solver_type='GMRES', lintol=1e-12), dict(nvars=(7, 7), nu=0.1, freq=(1, 1), bc='dirichlet-zero')],
     tol=1e-11, itertol={'GMRES': 1e-9, 'CG': 1e-9})
spec('HeatEquation_ND_FD', 'heatNd_forced', [dict(nvars=15, nu=0.1, freq=2, bc='dirichlet-zero'), dict(nvars=16, nu=0.2, freq=2, bc='periodic')], tol=1e-11)
spec('LogisticEquation', 'logistics_equation', [dict(u0=0.5, lam=1.0, direct=True), dict(u0=0.3, lam=2.0, direct=False, newton_tol=1e-12)], tol=1e-11)
spec('Lorenz', 'LorenzAttractor', [dict(newton_tol=1e-11)], tol='newton_tol', tmax=0.0)
spec('Piline', 'piline', [dict()], tol=1e-11, tmax=0.0)
spec('Quench', 'Quench', [dict(nvars=2**4, newton_tol=1e-10), dict(nvars=2**4, newton_tol=1e-10, leak_type='exponential'), dict(nvars=16, newton_tol=1e-10, direct_solver=False, lintol=1e-12)], tol='newton_tol', tmax=0.0)
spec('Quench', 'QuenchIMEX', [dict(nvars=2**4)], tol=1e-10, tmax=0.0)
spec('TestEquation_0D', 'testequation0d', [dict(lambdas=np.array([-1.0, -10.0 + 3j, 2j]), u0=1.0)], tol=1e-12)
spec('TestEquation_0D', 'test_equation_IMEX', [dict(lambdas_implicit=np.array([-1.0, -10.0 + 0j]), lambdas_explicit=np.array([2j, -0.5 + 0j]), u0=1.0)], tol=1e-12)
spec('Van_der_Pol_implicit', 'vanderpol', [dict(mu=5.0, u0=np.array([2.0, 0.0]), newton_tol=1e-11), dict(mu=0.5, u0=np.array([1.0, 1.0]), newton_tol=1e-11)], tol='newton_tol', tmax=0.0)
spec('generic_ND_FD', 'GenericNDimFinDiff', [dict(nvars=16, coeff=0.3, derivative=2, freq=2, bc='periodic'), dict(nvars=16, coeff=-1.0, derivative=1, freq=2, stencil_type='upwind', order=3, bc='periodic')], tol=1e-11, no_exact=True, random_state=True)
spec('nonlinear_ODE_1', 'nonlinear_ODE_1', [dict(u0=0.0, newton_tol=1e-12)], tol='newton_tol', tmax=1.5)
spec('odeScalar', 'ProtheroRobinson', [dict(epsilon=1e-3, nonLinear=False), dict(epsilon=1e-2, nonLinear=True)], tol='newton_tol', tmax=1.0)
spec('odeSystem', 'ProtheroRobinsonAutonomous', [dict(epsilon=1e-3, nonLinear=False), dict(epsilon=1e-2, nonLinear=True)], tol='newton_tol', tmax=1.0)
spec('odeSystem', 'Kaps', [dict(epsilon=1e-3), dict(epsilon=0.5)], tol='newton_tol', tmax=1.0)
spec('odeSystem', 'ChemicalReaction3Var', [dict()], tol='newton_tol', tmax=0.0)
spec('odeSystem', 'JacobiElliptic', [dict()], tol='newton_tol', tmax=0.0)
spec('polynomial_test_problem', 'polynomial_testequation', [dict(degree=3, seed=5)], tol=1e-11, tmax=1.0)
spec('polynomial_test_problem', 'polynomial_testequation_IMEX', [dict(degree=3, seed=5)], tol=1e-11, tmax=1.0)
# no implicit solver (second-order / particle problems): eval_f and u_exact contracts only
spec('HarmonicOscillator', 'harmonic_oscillator', [dict(k=2.0, mu=0.1, u0=(1.0, 0.0)), dict(k=1.0, mu=3.0, u0=(1.0, 0.5)), dict(k=1.0, mu=2.0, u0=(0.7, -0.4)), dict(k=4.0, mu=0.0, u0=(0.3, 1.0)), dict(k=0.25, mu=5.0, u0=(-1.0, 2.0))], nosolve=True)
spec('FermiPastaUlamTsingou', 'fermi_pasta_ulam_tsingou', [dict(npart=8, alpha=0.25, k=1.0, energy_modes=[[1, 2]])], nosolve=True)
spec('HenonHeiles', 'henon_heiles', [dict()], nosolve=True)
spec('OuterSolarSystem', 'outer_solar_system', [dict(sun_only=False)], nosolve=True)
spec('FullSolarSystem', 'full_solar_system', [dict(sun_only=False)], nosolve=True)
spec('PenningTrap_3D', 'penningtrap', [dict(omega_B=25.0, omega_E=4.9, u0=np.array([[10, 0, 0], [100, 0, 100], [1], [1]], dtype=object), nparts=1, sig=0.1)], nosolve=True)
# spectral problems: mass matrix + boundary rows inside the solve -> only argument/type contracts
spec('HeatEquation_Chebychev', 'Heat1DChebychev', [dict(nvars=32)], spectral=True)
spec('HeatEquation_Chebychev', 'Heat1DUltraspherical', [dict(nvars=32)], spectral=True)
spec('HeatEquation_Chebychev', 'Heat2DChebychev', [dict(nx=16, ny=17)], spectral=True)
spec('HeatEquation_Chebychev', 'Heat2DUltraspherical', [dict(nx=16, ny=17)], spectral=True)
spec('Burgers', 'Burgers1D', [dict(N=8)], spectral=True)
spec('Burgers', 'Burgers2D', [dict(nx=4, nz=8)], spectral=True)
# ---- non-default parameter variants (appended so that variant 0 stays the configuration the sibling relation uses)
def more(name, *variants):
    SPECS[name]['variants'] = list(SPECS[name]['variants']) + list(variants)


more('advectiondiffusion1d_implicit', dict(nvars=16, c=-0.7, freq=1, nu=0.1, L=2.0), dict(nvars=32, c=2.0, freq=2, nu=0.005, L=0.5))  # freq*L integer: the closed form is periodic on the domain
more('advectionNd', dict(nvars=16, c=-1.3, freq=2, stencil_type='center', order=4, bc='periodic'), dict(nvars=16, c=0.5, freq=-1, sigma=0.1, stencil_type='center', order=6, bc='periodic'), dict(nvars=(8, 8, 8), c=0.4, freq=(2, 2, 2), bc='periodic'))
more('allencahn_front_fullyimplicit', dict(nvars=31, dw=0.0, eps=0.08, interval=(-1.0, 1.0), newton_tol=1e-11), dict(nvars=15, dw=-0.1, eps=0.02, newton_tol=1e-11))
more('allencahn_front_semiimplicit', dict(nvars=31, dw=0.0, eps=0.08, interval=(-1.0, 1.0), newton_tol=1e-11))
more('allencahn_periodic_fullyimplicit', dict(nvars=32, dw=0.0, eps=0.08, interval=(-1.0, 1.0), radius=0.4, newton_tol=1e-11))
more('allencahn_periodic_semiimplicit', dict(nvars=32, dw=0.0, eps=0.08, interval=(-1.0, 1.0), radius=0.4, newton_tol=1e-11))
more('allencahn_periodic_multiimplicit', dict(nvars=32, dw=0.0, eps=0.08, interval=(-1.0, 1.0), radius=0.4, newton_tol=1e-11))
more('allencahn_fullyimplicit', dict(nvars=(8, 8), nu=1, eps=0.08, radius=0.3, order=4, newton_tol=1e-10, lin_tol=1e-12, lin_maxiter=500))
more('allencahn_semiimplicit', dict(nvars=(8, 8), nu=1, eps=0.08, radius=0.3, order=4, lin_tol=1e-12, lin_maxiter=500))
more('allencahn2d_imex', dict(nvars=(8, 8), nu=2, eps=0.04, L=2.0, radius=0.5, init_type='checkerboard'))
more('battery', dict(ncapacitors=1, V_ref=np.array([0.8]), C=np.array([2.0]), Vs=3.0, Rs=0.2, R=2.0, L=0.5, alpha=1.5))
more('battery_n_capacitors', dict(ncapacitors=3, V_ref=np.array([1.0, 0.9, 0.8]), C=np.array([1.0, 2.0, 0.5]), alpha=1.1))
more('buck_converter', dict(duty=0.3, fsw=500.0, Vs=5.0, Rs=0.1, C1=2e-3, Rp=0.02, L1=2e-3, C2=5e-4, Rl=5))
more('swfw_scalar', dict(lambda_s=np.array([-0.5 + 1j]), lambda_f=np.array([20j]), u0=2.0))
more('heatNd_unforced', dict(nvars=15, nu=0.3, freq=3, stencil_type='center', order=4, bc='dirichlet-zero'), dict(nvars=16, nu=0.05, freq=-1, sigma=0.1, bc='periodic'), dict(nvars=(7, 7, 7), nu=0.2, freq=(1, 2, 1), bc='dirichlet-zero'), dict(nvars=(8, 8), nu=0.2, freq=(2, 2), order=4, bc='periodic'))
more('heatNd_forced', dict(nvars=(7, 7), nu=0.3, freq=(1, 2), bc='dirichlet-zero'), dict(nvars=15, nu=0.1, freq=3, order=4, bc='dirichlet-zero'))
more('LorenzAttractor', dict(sigma=8.0, rho=20.0, beta=2.0, u0=(2.0, -1.0, 10.0), newton_tol=1e-11))
more('piline', dict(Vs=50.0, Rs=2.0, C1=0.5, Rpi=0.4, Lpi=2.0, C2=1.5, Rl=3.0))
more('Quench', dict(nvars=2**4, newton_tol=1e-10, leak_transition='Gaussian'), dict(nvars=2**4, newton_tol=1e-10, Cv=500.0, K=200.0, u_thresh=0.05, u_max=0.1, Q_max=2.0, leak_range=(0.3, 0.6), order=4))
more('testequation0d', dict(lambdas=np.array([-3.0, -0.1]), u0=2.5), dict(lambdas=np.array([-1.0, 1j, -3.0 + 1j]), u0=1.0 + 0.5j))
more('test_equation_IMEX', dict(lambdas_implicit=np.array([-4.0]), lambdas_explicit=np.array([1.5]), u0=0.5))
more('GenericNDimFinDiff', dict(nvars=15, coeff=0.7, derivative=2, freq=2, order=4, bc='dirichlet-zero'), dict(nvars=(8, 8), coeff=-0.3, derivative=1, freq=(2, 2), stencil_type='center', order=2, bc='periodic'), dict(nvars=15, coeff=1.0, derivative=2, freq=1, bc='neumann-zero'))
more('nonlinear_ODE_1', dict(u0=0.3, newton_tol=1e-12))
more('DiscontinuousTestODE', dict(newton_tol=1e-11, _attrs=dict(t_switch=1.3)))  # an event time located by the switch estimator while the state is still far below the threshold
more('ProtheroRobinson', dict(epsilon=1.0, nonLinear=True), dict(epsilon=1e-5, nonLinear=False))
more('ProtheroRobinsonAutonomous', dict(epsilon=1.0, nonLinear=True))
more('polynomial_testequation', dict(degree=6, seed=11), dict(degree=1, seed=3))
more('polynomial_testequation_IMEX', dict(degree=5, seed=12))
more('fermi_pasta_ulam_tsingou', dict(npart=5, alpha=1.0, k=2.0, energy_modes=[[1]]))
more('outer_solar_system', dict(sun_only=True))
more('full_solar_system', dict(sun_only=True))
more('penningtrap', dict(omega_B=10.0, omega_E=2.0, u0=np.array([[1, 0.5, -1], [2, 0, 3], [1], [1]], dtype=object), nparts=3, sig=0.2))
more('Heat1DChebychev', dict(nvars=16, a=1.0, b=-2.0, f=2, nu=0.3, mode='T2T'), dict(nvars=17, a=0.5, b=0.5, f=0, nu=2.0))
more('Heat1DUltraspherical', dict(nvars=16, a=1.0, b=-2.0, f=2, nu=0.3))
more('Heat2DChebychev', dict(nx=8, ny=9, a=1.0, b=1.0, c=0.5, fx=2, fy=1, nu=0.5))
more('Burgers1D', dict(N=16, epsilon=0.3, BCl=0.5, BCr=-0.2, f=1, mode='T2T'))
SIBLINGS = [
    ('allencahn_front_fullyimplicit', 'allencahn_front_semiimplicit'), ('allencahn_periodic_fullyimplicit', 'allencahn_periodic_semiimplicit'), ('allencahn_periodic_fullyimplicit', 'allencahn_periodic_multiimplicit'),
    ('allencahn_fullyimplicit', 'allencahn_semiimplicit'), ('allencahn_fullyimplicit', 'allencahn_semiimplicit_v2'), ('allencahn_fullyimplicit', 'allencahn_multiimplicit'), ('allencahn_fullyimplicit', 'allencahn_multiimplicit_v2'),
    ('allencahn2d_imex', 'allencahn2d_imex_stab'), ('Quench', 'QuenchIMEX'), ('battery', 'battery_implicit'), ('advectiondiffusion1d_imex', 'advectiondiffusion1d_implicit'),
]
FACTORS = [0.0, 1e-6, 1e-4, 1e-2, 0.1, 1.0, 10.0, 100.0]


def cases(tier, seed):
    rng = np.random.default_rng(seed + 1212)
    cs = []
    reps = 2 if tier == 'quick' else 40
    for name, sp in SPECS.items():
        for vi in range(len(sp['variants'])):
            for rep in range(reps):
                cs.append(dict(kind='class', cls=name, variant=vi, seed=int(rng.integers(0, 2**31)), nstates=6 if tier == 'quick' else 12, _cost=5))
    for a, b in SIBLINGS:
        for rep in range(1 if tier == 'quick' else 10):
            cs.append(dict(kind='sibling', a=a, b=b, seed=int(rng.integers(0, 2**31)), _cost=3))
    runs = ['heatNd_unforced', 'heatNd_forced', 'advectionNd', 'vanderpol', 'LorenzAttractor', 'allencahn_front_fullyimplicit', 'allencahn_periodic_semiimplicit', 'generalized_fisher', 'testequation0d',
            'logistics_equation', 'Kaps', 'ProtheroRobinsonAutonomous', 'nonlinear_ODE_1', 'swfw_scalar', 'allencahn2d_imex']
    for name in runs:
        for rep in range(1 if tier == 'quick' else 8):
            cs.append(dict(kind='run', cls=name, seed=int(rng.integers(0, 2**31)), _cost=15))
    return cs


def load(name):
    import importlib

    sp = SPECS[name]
    mod = importlib.import_module(PC + sp['mod'])
    return getattr(mod, sp['cls'])


def pieces(f):
    n = type(f).__name__
    if n == 'imex_mesh':
        return dict(impl=np.asarray(f.impl), expl=np.asarray(f.expl))
    if n == 'comp2_mesh':
        return dict(comp1=np.asarray(f.comp1), comp2=np.asarray(f.comp2))
    return dict(full=np.asarray(f))


def full_rhs(f):
    p = pieces(f)
    return sum(p.values())


def obj_digest(o):
    n = type(o).__name__
    if n == 'particles':
        return (digest(o.pos), digest(o.vel))
    if n == 'fields':
        return (digest(o.elec), digest(o.magn))
    return digest(np.asarray(o))


def obj_bufs(o):
    n = type(o).__name__
    if n == 'particles':
        return [np.asarray(o.pos), np.asarray(o.vel)]
    if n == 'fields':
        return [np.asarray(o.elec), np.asarray(o.magn)]
    return [np.asarray(o)]


def shares(a, b):
    return any(np.shares_memory(x, y) for x in obj_bufs(a) for y in obj_bufs(b))


def tol_of(sp, P, kw):
    t = sp.get('tol', 1e-11)
    if isinstance(t, str):
        t = float(getattr(P, t, kw.get(t, 1e-10)))
    st = kw.get('solver_type')
    if st in (sp.get('itertol') or {}):
        t = max(t, sp['itertol'][st])
    return t


def smooth_noise(rng, shape, cplx):
    """random perturbation; on grids (>= 8 points along an axis) only the lowest Fourier modes are kept so that spectral
    problems are not fed data at the Nyquist frequency (where first derivatives of real data are not representable)"""
    a = rng.standard_normal(shape)
    if cplx:
        a = a + 1j * rng.standard_normal(shape)
    for ax, n in enumerate(shape):
        if n >= 8:
            h = np.fft.fft(a, axis=ax)
            idx = [slice(None)] * len(shape)
            idx[ax] = slice(3, n - 2)
            h[tuple(idx)] = 0
            a = np.fft.ifft(h, axis=ax)
            a = a if cplx else np.real(a)
    return a


def admissible_state(P, sp, rng, t):
    if sp.get('random_state'):
        u = P.dtype_u(P.init)
        u[...] = smooth_noise(rng, np.asarray(u).shape, np.iscomplexobj(np.asarray(u)))
        return u
    u = P.u_exact(t)
    if not isinstance(u, P.dtype_u):
        v = P.dtype_u(P.init)
        v[...] = np.asarray(u)
        u = v
    a = np.asarray(u)
    scale = max(float(np.max(np.abs(a))) if a.size else 1.0, 1e-3)
    u[...] = a + 1e-3 * scale * smooth_noise(rng, a.shape, np.iscomplexobj(a))
    return u


def run_class(case, r):
    name, vi = case['cls'], case['variant']
    sp = SPECS[name]
    kw = dict(sp['variants'][vi])
    rng = np.random.default_rng(case['seed'])
    cls = load(name)
    tag = f'{name}[{vi}]'
    r.key = f'class/{name}/{vi}'
    attrs = kw.pop('_attrs', {})  # attributes other shipped components set on a live problem (e.g. the switch estimator's t_switch)
    P = cls(**kw)
    twin = cls(**kw)
    for obj in (P, twin):
        for an, av in attrs.items():
            setattr(obj, an, av)
    t0 = sp.get('t0', 0.0)
    tmax = sp.get('tmax', 0.5)
    nstates = case['nstates']
    # ---- particle problems: eval_f / u_exact only
    if sp.get('nosolve'):
        u = P.u_exact(t0) if name != 'penningtrap' else P.u_init()
        du = obj_digest(u)
        f1 = P.eval_f(u, t0)
        f2 = P.eval_f(u, t0)
        r.check(obj_digest(u) == du, 'eval-f-preserves-arguments', f'{tag}: eval_f modified its state argument')
        r.check(isinstance(f1, P.dtype_f) and f1 is not f2 and obj_digest(f1) == obj_digest(f2), 'eval-f-fresh-deterministic', f'{tag}: eval_f does not return a fresh, reproducible {P.dtype_f.__name__}')
        r.check(not shares(f1, u), 'eval-f-result-independent', f'{tag}: eval_f result shares memory with the state')
        r.check(isinstance(u, P.dtype_u), 'u-exact-type', f'{tag}: u_exact returned {type(u).__name__}')
        if name == 'harmonic_oscillator':
            # closed-form trajectory: matches the configured initial condition, and (pos, vel)' = (vel, eval_f) along it
            import contextlib
            import io

            with contextlib.redirect_stdout(io.StringIO()):
                ua = P.u_exact(0.0)
                e0 = max(abs(float(np.asarray(ua.pos).ravel()[0]) - kw['u0'][0]), abs(float(np.asarray(ua.vel).ravel()[0]) - kw['u0'][1]))
                r.check(e0 <= 1e-12 * (1 + max(abs(x) for x in kw['u0'])), 'closed-form-solution-matches-initial-condition', f'{tag}: u_exact(0) = ({float(np.asarray(ua.pos).ravel()[0])!r}, {float(np.asarray(ua.vel).ravel()[0])!r}) but u0 = {kw["u0"]}')
                for ts in rng.uniform(0.05, 2.0, 3):
                    h = 1e-3

                    def ue(tt):
                        x = twin.u_exact(tt)
                        return np.array([float(np.asarray(x.pos).ravel()[0]), float(np.asarray(x.vel).ravel()[0])])

                    d1 = (ue(ts + h) - ue(ts - h)) / (2 * h)
                    d2 = (ue(ts + h / 2) - ue(ts - h / 2)) / h
                    rich = (4 * d2 - d1) / 3
                    ux = twin.u_exact(ts)
                    acc = float(np.asarray(twin.eval_f(ux, ts)).ravel()[0])
                    exp = np.array([float(np.asarray(ux.vel).ravel()[0]), acc])
                    e = float(np.max(np.abs(rich - exp)))
                    sc = max(1.0, float(np.max(np.abs(exp))))
                    r.check(e <= 1e-5 * sc, 'closed-form-solution-satisfies-ode', f'{tag}: d/dt u_exact({ts:.3g}) = {rich} differs from (vel, eval_f(u_exact)) = {exp}')
        r.nontrivial = True
        r.observe('class', name)
        r.sample = dict(cls=name, variant=vi, kind='nosolve')
        return
    tol = tol_of(sp, P, kw) if not sp.get('spectral') else None
    judged = 0
    worst = 0.0
    for i in range(nstates):
        t = t0 + (float(rng.uniform(0, tmax)) if tmax > 0 else 0.0)
        if 't_switch' in attrs and i % 3 != 2:
            t = [attrs['t_switch'], float(np.nextafter(attrs['t_switch'], -np.inf))][i % 3]  # exactly at / one ulp before the event time
        try:
            u = admissible_state(P, sp, rng, t)
        except NotImplementedError:
            t = t0
            u = admissible_state(P, sp, rng, t)
        # ---------------- eval_f contract
        du = digest(np.asarray(u))
        f = P.eval_f(u, t)
        r.check(digest(np.asarray(u)) == du, 'eval-f-preserves-arguments', f'{tag}: eval_f modified its state argument')
        r.check(type(f) is P.dtype_f, 'eval-f-type', f'{tag}: eval_f returned {type(f).__name__}, declared {P.dtype_f.__name__}')
        r.check(not np.shares_memory(np.asarray(f), np.asarray(u)), 'eval-f-result-independent', f'{tag}: eval_f result shares memory with the state')
        f_again = P.eval_f(u, t)
        r.check(f_again is not f and np.array_equal(np.asarray(f_again), np.asarray(f), equal_nan=True), 'eval-f-fresh-deterministic', f'{tag}: two evaluations are not equal fresh objects')
        ft = twin.eval_f(u, t)
        agrees = np.array_equal(np.asarray(ft), np.asarray(f), equal_nan=True)
        r.check(agrees, 'twin-agrees', f'{tag}: a twin instance built from the same arguments evaluates a different right-hand side for the same (u, t): eval_f depends on earlier calls',
                mech='buck_converter:eval-f-uses-matrix-left-by-last-solve' if name == 'buck_converter' else None)
        if name == 'buck_converter':
            twin = P  # judge the solve against the instance's own (stateful) right-hand side
        if sp.get('spectral'):
            # argument / type contract of the solve only
            rhs = P.dtype_u(u)
            drhs, du0 = digest(np.asarray(rhs)), digest(np.asarray(u))
            out = P.solve_system(rhs, 1e-2, u, t)
            r.check(digest(np.asarray(rhs)) == drhs and digest(np.asarray(u)) == du0, 'solve-preserves-arguments', f'{tag}: solve_system modified rhs or the initial guess')
            r.check(type(out) is P.dtype_u and not np.shares_memory(np.asarray(out), np.asarray(rhs)) and not np.shares_memory(np.asarray(out), np.asarray(u)), 'solve-result-fresh', f'{tag}: solve_system result is not a fresh {P.dtype_u.__name__}')
            r.nontrivial = True
            continue
        # ---------------- implicit solves
        solvers = [('solve_system', 'impl' if type(f).__name__ == 'imex_mesh' else 'full')]
        if sp.get('multi'):
            solvers = [('solve_system_1', 'comp1'), ('solve_system_2', 'comp2')]
        for fac in ([FACTORS[j] for j in rng.choice(len(FACTORS), 4, replace=False)] + [0.0] if i else FACTORS):
            if fac in sp.get('skip_factors', ()):
                continue  # exact singularity 1 - factor*lambda = 0 of this class
            for meth, piece in solvers:
                fimp_u = pieces(twin.eval_f(u, t))[piece]
                rhs = P.dtype_u(u)
                rhs[...] = np.asarray(u) - fac * fimp_u
                guess = P.dtype_u(u)
                guess[...] = np.asarray(u) * (1 + 1e-4 * smooth_noise(rng, np.asarray(u).shape, False))
                if sp.get('exact_solver'):
                    guess = P.dtype_u(u)
                drhs, dg = digest(np.asarray(rhs)), digest(np.asarray(guess))
                with np.errstate(all='ignore'):
                    out = getattr(P, meth)(rhs, fac, guess, t)
                r.check(digest(np.asarray(rhs)) == drhs, 'solve-preserves-arguments', f'{tag}: {meth}(factor={fac:g}) modified rhs')
                r.check(digest(np.asarray(guess)) == dg, 'solve-preserves-arguments', f'{tag}: {meth}(factor={fac:g}) modified the initial guess u0')
                r.check(type(out) is P.dtype_u, 'solve-result-type', f'{tag}: {meth} returned {type(out).__name__}, declared {P.dtype_u.__name__}')
                r.check(not np.shares_memory(np.asarray(out), np.asarray(rhs)) and not np.shares_memory(np.asarray(out), np.asarray(guess)), 'solve-result-fresh', f'{tag}: {meth}(factor={fac:g}) returns an object sharing memory with rhs or u0')
                fo = pieces(twin.eval_f(out, t))[piece]
                if name == 'buck_converter':
                    # the right-hand side this instance evaluates now (after the solve assembled its matrix) is the reference for both terms
                    rhs_chk = np.asarray(u) - fac * pieces(P.eval_f(u, t))[piece]
                    if not np.array_equal(rhs_chk, np.asarray(rhs)):
                        r.check(False, 'twin-agrees', f'{tag}: eval_f(u, t) changed after solve_system was called (hidden state)', mech='buck_converter:eval-f-uses-matrix-left-by-last-solve')
                        out = getattr(P, meth)(P.dtype_u(u) * 0 + rhs_chk, fac, guess, t)
                        rhs = P.dtype_u(u)
                        rhs[...] = rhs_chk
                        fo = pieces(P.eval_f(out, t))[piece]
                res = np.asarray(out) - fac * fo - np.asarray(rhs)
                nr = float(np.max(np.abs(res))) if res.size else 0.0
                bound = 20 * (sp.get('tol1', None) if (meth == 'solve_system_1' and sp.get('tol1')) else tol) * (1.0 + float(np.max(np.abs(np.asarray(rhs)))))
                worst = max(worst, nr / bound) if np.isfinite(nr) else worst
                mech = None
                if not (np.all(np.isfinite(np.asarray(out))) and nr <= bound):
                    if name in ('ExactDiscontinuousTestODE', 'polynomial_testequation', 'polynomial_testequation_IMEX'):
                        try:
                            if float(np.max(np.abs(np.asarray(out) - np.asarray(P.u_exact(t))))) <= 1e-12 * (1 + float(np.max(np.abs(np.asarray(out))))):
                                mech = f'{name}:solve-returns-closed-form-solution-instead-of-solving'
                        except Exception:  # noqa
                            pass
                    if name == 'logistics_equation' and kw.get('direct') and fac == 0.0 and not np.all(np.isfinite(np.asarray(out))):
                        mech = 'logistics_equation:direct-solver-divides-by-factor'
                    if name == 'boussinesq_2d_imex' and meth == 'solve_system':
                        # restarted GMRES stagnates for large factors and the class ignores the solver's info flag
                        try:
                            import warnings

                            from scipy.sparse.linalg import gmres

                            with warnings.catch_warnings():
                                warnings.simplefilter('ignore')
                                _, info = gmres(P.Id - fac * P.M, np.asarray(rhs).flatten(), x0=np.asarray(guess).flatten(), rtol=P.gmres_tol_limit, restart=P.gmres_restart, maxiter=P.gmres_maxiter, atol=0)
                            if info > 0:
                                mech = 'boussinesq_2d_imex:gmres-non-convergence-ignored'
                        except Exception:  # noqa
                            pass
                    if name == 'allencahn_front_semiimplicit' and res.size > 4 and float(np.max(np.abs(res[1:-1]))) <= 0.05 * nr:
                        mech = 'allencahn_front_semiimplicit:solve-ignores-dirichlet-boundary-values'
                r.check(np.all(np.isfinite(np.asarray(out))) and nr <= bound, 'implicit-solve-residual', mech=mech, msg= f'{tag}: {meth}(factor={fac:g}, t={t:.3g}): |u - factor*f_{piece}(u) - rhs| = {nr:.3e} > {bound:.1e} (tolerance {tol:.1e})', factor=fac)
                if fac == 0.0:
                    e0 = float(np.max(np.abs(np.asarray(out) - np.asarray(rhs))))
                    r.check(e0 <= bound, 'factor-zero-returns-rhs', f'{tag}: {meth}(factor=0) differs from rhs by {e0:.3e}', mech=mech)
                judged += 1
    # ---------------- closed-form solution: initial value and derivative (0-D ODE classes)
    if 'u0' in kw and name in ('testequation0d', 'test_equation_IMEX', 'swfw_scalar', 'logistics_equation', 'vanderpol', 'nonlinear_ODE_1'):
        ua = np.asarray(P.u_exact(0.0)).astype(complex).ravel()
        want = np.broadcast_to(np.asarray(kw['u0'], dtype=complex).ravel(), ua.shape) if np.asarray(kw['u0']).size in (1, ua.size) else None
        if want is not None:
            e0 = float(np.max(np.abs(ua - want)))
            r.check(e0 <= 1e-12 * (1 + float(np.max(np.abs(want)))), 'closed-form-solution-matches-initial-condition', f'{tag}: u_exact(0) = {ua} but the configured initial value is {kw["u0"]}',
                    mech='nonlinear_ODE_1:u0-parameter-ignored-by-closed-form-solution' if name == 'nonlinear_ODE_1' else None)
    if not sp.get('spectral') and not sp.get('no_exact') and not attrs and np.asarray(P.u_exact(t0)).size <= 8 and tmax > 0:
        ts = t0 + float(rng.uniform(0.1, 0.9)) * tmax
        try:
            h = 1e-3 * max(tmax, 1e-3)

            def ue(tt):
                return np.asarray(twin.u_exact(tt)).astype(complex)

            d1 = (ue(ts + h) - ue(ts - h)) / (2 * h)
            d2 = (ue(ts + h / 2) - ue(ts - h / 2)) / h
            rich = (4 * d2 - d1) / 3
            agree = float(np.max(np.abs(d1 - d2))) <= 1e-6 * max(1.0, float(np.max(np.abs(rich))))
            fex = full_rhs(twin.eval_f(twin.u_exact(ts), ts))
            if agree:
                e = float(np.max(np.abs(rich - fex)))
                sc = max(1.0, float(np.max(np.abs(fex))))
                r.check(e <= 1e-5 * sc, 'closed-form-solution-satisfies-ode', f'{tag}: d/dt u_exact({ts:.3g}) differs from eval_f(u_exact) by {e:.3e} (scale {sc:.2e})')
            else:
                r.count('derivative_unresolved')
        except NotImplementedError:
            r.count('u_exact_only_at_t0')
    # ---------------- the result of a solve depends on its arguments only, not on what the object solved before
    # (factorisation / operator caches keyed too coarsely): used object vs brand-new object, factors that nearly coincide
    if name not in ('buck_converter',):
        meths = ['solve_system'] if not sp.get('multi') else ['solve_system_1', 'solve_system_2']
        t = t0
        u = admissible_state(P, sp, rng, t)
        rhs = P.dtype_u(u)
        base = float(rng.choice([1e-6, 9.6e-6, 1e-3, 0.1, 1.0]))
        pairs = [(base, base * (1 + 4e-2)), (base, base + 4e-7), (0.1, 0.1 + 3e-7)]
        for fa, fb in pairs[: 2 if case['nstates'] < 6 else 3]:
            if fa in sp.get('skip_factors', ()) or fb in sp.get('skip_factors', ()):
                continue
            for meth in meths:
                try:
                    getattr(P, meth)(rhs, fa, u, t)
                    used = getattr(P, meth)(rhs, fb, u, t)
                    fresh_obj = cls(**kw)
                    for an, av in attrs.items():
                        setattr(fresh_obj, an, av)
                    fresh = getattr(fresh_obj, meth)(rhs, fb, u, t)
                except Exception:  # noqa
                    r.count('history_solve_raised')
                    continue
                a_, b_ = np.asarray(used), np.asarray(fresh)
                if not (np.all(np.isfinite(a_)) and np.all(np.isfinite(b_))):
                    r.count('history_solve_not_finite')
                    continue
                e = float(np.max(np.abs(a_ - b_))) if a_.size else 0.0
                sc = max(1.0, float(np.max(np.abs(b_)))) if b_.size else 1.0
                htol = 1e-9 if (kw.get('solver_type') in ('CG', 'GMRES') or name in ('boussinesq_2d_imex',)) else 1e-11
                r.check(e <= htol * sc, 'solve-independent-of-object-history', f'{tag}: {meth}(factor={fb!r}) on an object that has just solved with factor {fa!r} differs from the same call on a new object by {e:.3e} (scale {sc:.2e})')
                r.count('history_pairs')
    r.nontrivial = judged > 0 or bool(sp.get('spectral'))
    r.count('solves_judged', judged)
    r.observe('class', name)
    r.observe('worst_residual_over_bound_decile', int(min(worst, 1.0) * 10))
    r.sample = dict(cls=name, variant=vi, kw={k: (v if not isinstance(v, np.ndarray) else v.tolist()) for k, v in kw.items()}, solves=judged, worst_residual_over_bound=worst)


def run_sibling(case, r):
    a, b = case['a'], case['b']
    rng = np.random.default_rng(case['seed'])
    r.key = f'sibling/{a}/{b}'
    A, B = load(a), load(b)
    ka = dict(SPECS[a]['variants'][0])
    kb = dict(SPECS[b]['variants'][0])
    # common arguments: take a's and keep only what b accepts
    import inspect

    pb = inspect.signature(B.__init__).parameters
    for k, v in ka.items():
        if k in pb:
            kb[k] = v
    PA, PB = A(**ka), B(**kb)
    for i in range(4):
        t = SPECS[a].get('t0', 0.0)
        u = admissible_state(PA, SPECS[a], rng, t)
        ub = PB.dtype_u(PB.init)
        ub[...] = np.asarray(u)
        fa, fb = full_rhs(PA.eval_f(u, t)), full_rhs(PB.eval_f(ub, t))
        sc = max(1.0, float(np.max(np.abs(fa))))
        e = float(np.max(np.abs(fa - fb)))
        r.check(e <= 1e-9 * sc, 'split-pieces-sum-to-unsplit-rhs', f'{a} vs {b}: full right-hand sides differ by {e:.3e} (scale {sc:.2e}) for the same state')
    # non-default parameters shared by both (exercise the constants that must move together)
    for extra in (dict(nu=1), dict(eps=0.07), dict(dw=-0.1)):
        pa = inspect.signature(A.__init__).parameters
        if all(k in pa and k in pb for k in extra):
            PA2, PB2 = A(**{**ka, **extra}), B(**{**kb, **extra})
            u = admissible_state(PA2, SPECS[a], rng, SPECS[a].get('t0', 0.0))
            ub = PB2.dtype_u(PB2.init)
            ub[...] = np.asarray(u)
            fa, fb = full_rhs(PA2.eval_f(u, 0.0)), full_rhs(PB2.eval_f(ub, 0.0))
            sc = max(1.0, float(np.max(np.abs(fa))))
            e = float(np.max(np.abs(fa - fb)))
            r.check(e <= 1e-9 * sc, 'split-pieces-sum-to-unsplit-rhs', f'{a} vs {b} with {extra}: full right-hand sides differ by {e:.3e} (scale {sc:.2e})')
    r.nontrivial = True
    r.observe('sibling', f'{a}/{b}')
    r.sample = dict(a=a, b=b)


def run_run(case, r):
    """the contracts stay on while a real SDC run drives the problem"""
    from pySDC.implementations.controller_classes.controller_nonMPI import controller_nonMPI
    from pySDC.implementations.sweeper_classes.generic_implicit import generic_implicit
    from pySDC.implementations.sweeper_classes.imex_1st_order import imex_1st_order

    name = case['cls']
    sp = SPECS[name]
    kw = dict(sp['variants'][0])
    cls = load(name)
    r.key = f'run/{name}'
    imex = cls.dtype_f.__name__ == 'imex_mesh'
    dt = 1e-3 if name.startswith('allencahn') or name in ('generalized_fisher',) else 1e-2
    desc = dict(problem_class=cls, problem_params=kw, sweeper_class=imex_1st_order if imex else generic_implicit, sweeper_params=dict(num_nodes=3, quad_type='RADAU-RIGHT', QI='LU'),
                level_params=dict(dt=dt, restol=1e-9), step_params=dict(maxiter=8))
    ctrl = controller_nonMPI(2, dict(logger_level=50, dump_setup=False), desc)
    twin = cls(**kw)
    tol = tol_of(sp, twin, kw)
    stat = dict(solves=0, evals=0, worst=0.0)
    for S in ctrl.MS:
        P = S.levels[0].prob
        o_solve, o_eval = P.solve_system, P.eval_f

        def solve_system(rhs, factor, u0, t, o_solve=o_solve, P=P):
            drhs, du0 = digest(np.asarray(rhs)), digest(np.asarray(u0))
            out = o_solve(rhs, factor, u0, t)
            r.check(digest(np.asarray(rhs)) == drhs and digest(np.asarray(u0)) == du0, 'solve-preserves-arguments', f'{name} (in run): solve_system modified rhs or u0')
            r.check(type(out) is P.dtype_u and not np.shares_memory(np.asarray(out), np.asarray(rhs)) and not np.shares_memory(np.asarray(out), np.asarray(u0)), 'solve-result-fresh', f'{name} (in run): solve_system result is not a fresh {P.dtype_u.__name__}')
            fo = pieces(twin.eval_f(out, t))['impl' if imex else 'full']
            nr = float(np.max(np.abs(np.asarray(out) - factor * fo - np.asarray(rhs))))
            bound = 20 * tol * (1.0 + float(np.max(np.abs(np.asarray(rhs)))))
            stat['worst'] = max(stat['worst'], nr / bound)
            r.check(nr <= bound, 'implicit-solve-residual', f'{name} (in run, factor={factor:g}, t={t:.4g}): residual {nr:.3e} > {bound:.1e}')
            stat['solves'] += 1
            return out

        def eval_f(u, t, o_eval=o_eval, P=P):
            du = digest(np.asarray(u))
            out = o_eval(u, t)
            r.check(digest(np.asarray(u)) == du, 'eval-f-preserves-arguments', f'{name} (in run): eval_f modified its argument')
            r.check(type(out) is P.dtype_f and not np.shares_memory(np.asarray(out), np.asarray(u)), 'eval-f-type', f'{name} (in run): eval_f result is not a fresh {P.dtype_f.__name__}')
            stat['evals'] += 1
            return out

        P.solve_system, P.eval_f = solve_system, eval_f
    P0 = ctrl.MS[0].levels[0].prob
    t0 = sp.get('t0', 0.0)
    u0 = P0.u_exact(t0)
    with np.errstate(all='ignore'):
        ctrl.run(u0, t0, t0 + 4 * dt)
    r.check(stat['solves'] > 0 and stat['evals'] > 0, 'contracts-reached', f'{name}: contracts never evaluated during the run ({stat})')
    r.nontrivial = stat['solves'] > 0
    r.count('solves_judged_in_runs', stat['solves'])
    r.observe('run_class', name)
    r.sample = dict(cls=name, solves=stat['solves'], evals=stat['evals'], worst_residual_over_bound=stat['worst'])


def run_case(case):
    r = Result(case)
    dict(**{'class': run_class}, sibling=run_sibling, run=run_run)[case['kind']](case, r)
    r.count('kind:' + case['kind'])
    return r


def finalize(agg):
    out = []
    c = agg['counters']
    for k in ('oracle:implicit-solve-residual', 'oracle:solve-preserves-arguments', 'oracle:eval-f-preserves-arguments', 'oracle:factor-zero-returns-rhs', 'oracle:split-pieces-sum-to-unsplit-rhs', 'oracle:closed-form-solution-satisfies-ode', 'oracle:contracts-reached'):
        if c.get(k, 0) == 0:
            out.append(f'monitor {k} never evaluated')
    if len(agg['seen'].get('class', ())) < 45:
        out.append(f"only {len(agg['seen'].get('class', ()))} problem classes reached their contracts")
    return out


def coverage_extra(agg, tier):
    return dict(classes_importable=len(SPECS), classes_reached=len(agg['seen'].get('class', ())), unreachable_modules='19 modules need cupy / mpi4py / mpi4py_fft / petsc4py / dolfin / firedrake (listed in DESIGN.md)')
