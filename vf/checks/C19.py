"""C19 — runs are reproducible, re-entrant and composable at step boundaries.

Digests of return values, of all statistics values (timings excluded) and of the callback trace are compared between:
a fresh controller, a second fresh controller, the same controller run again, a fresh controller built after / interleaved
with an unrelated controller (other problem, hooks, status variables), and runs split at every block boundary and continued
from the returned value and the logged end time.
"""

import numpy as np

from vf.core import Result, digest

PROPERTY = 'C19'
LEVEL = 'exploration'
TECHNIQUE = 'differential execution (metamorphic relations) with bit-exact digests of results, statistics and callback traces'
RULE = (
    'one case = one fixed-step configuration from the C01/C06 space (8+ problem kinds incl. time-dependent right-hand sides, every initial guess, 1-2 levels, 1-4 steps per block) executed '
    'as: fresh / fresh again / same controller again / after and interleaved with an unrelated adaptive controller / split at every block boundary (continued on the same and on a fresh controller); '
    'non-trivial = >= 2 blocks and all relations compared; distinct by configuration'
)
ASSUMPTIONS = [
    'every controller gets a freshly built, equal description (re-using one dictionary object is a different experiment)',
    'timing statistics (type starting with "timing") are excluded from the comparison',
    'bit identity through blake2 digests',
]
EXHAUSTIVE = {'quick': False, 'thorough': False}


def cases(tier, seed):
    from vf.gen import gen_run_case

    rng = np.random.default_rng(seed + 1919)
    cs = []
    n = 150 if tier == 'quick' else 2500
    for i in range(n):
        c = gen_run_case(rng, max_procs=4, max_levels=2, max_M=4)
        c['restol'] = float(10 ** rng.uniform(-10, -6))
        c['maxiter'] = int(rng.integers(2, 8))
        c['nblocks'] = int(rng.integers(2, 5))
        c['dt'] = float(rng.choice([0.05, 0.1, 0.01, 0.03, float(10 ** rng.uniform(-2.5, -1))]))
        c['t0'] = float(rng.choice([0.0, 0.0, 0.3, 1.7, float(rng.uniform(-2, 5))]))
        if i % 4 == 3:
            c['e_tol'] = float(10 ** rng.uniform(-9, -4))  # stop on the increment: level status variables registered by a convergence controller
            c['mssdc_jac'] = False
        c['_cost'] = c['num_procs'] * c['nlev'] * c['nblocks']
        if i % (10 if tier == 'quick' else 12) == 1:
            c['twin'] = ['node_type', 'quad_type', 'node_type', 'dt', 'node_type', 'QI'][(i // 10) % 6]
            if c['twin'] == 'node_type':
                # sweep-dependent coefficients on an implicit sweeper are the natural candidates for a cache keyed too coarsely
                c['QI'] = ['MIN-SR-FLEX', 'FLEX-JUMPER', 'MIN-SR-S'][(i // 20) % 3]
                c['prob'] = ['dahlquist', 'heat', 'dense'][(i // 10) % 3]
                c['initial_guess'] = 'spread'
            c['_cost'] += 12
        cs.append(c)
    return cs


def stats_digest(stats):
    out = {}
    for k, v in stats.items():
        if str(k.type).startswith('timing'):
            continue
        try:
            dv = digest(np.asarray(v)) if not isinstance(v, (int, float, bool, type(None))) else repr(v)
        except Exception:  # noqa
            dv = repr(v)
        out[tuple(k)] = dv
    return out


def trace_digest(events):
    return [(e['cb'], e.get('slot'), e.get('lvl'), e.get('iter'), repr(e.get('time')), repr(e.get('dt')), repr(e.get('residual')), e.get('done')) for e in events]


def unrelated_controller():
    """another controller in the same process: different problem, adaptivity (extra status variables, hooks, convergence controllers)"""
    from pySDC.implementations.controller_classes.controller_nonMPI import controller_nonMPI
    from pySDC.implementations.convergence_controller_classes.adaptivity import Adaptivity
    from pySDC.implementations.hooks.log_errors import LogLocalErrorPostStep
    from pySDC.implementations.hooks.log_solution import LogSolutionAfterIteration
    from pySDC.implementations.hooks.log_work import LogSDCIterations, LogWork
    from pySDC.implementations.problem_classes.Van_der_Pol_implicit import vanderpol
    from pySDC.implementations.sweeper_classes.generic_implicit import generic_implicit

    desc = dict(problem_class=vanderpol, problem_params=dict(mu=2.0, newton_tol=1e-10, newton_maxiter=50, u0=np.array([2.0, 0.0])), sweeper_class=generic_implicit,
                sweeper_params=dict(num_nodes=3, quad_type='RADAU-RIGHT', QI='LU', initial_guess='random'), level_params=dict(dt=0.02, restol=-1), step_params=dict(maxiter=3),
                convergence_controllers={Adaptivity: dict(e_tol=1e-5)})
    return controller_nonMPI(2, dict(logger_level=50, dump_setup=False, hook_class=[LogSolutionAfterIteration, LogWork, LogSDCIterations], mssdc_jac=False), desc)


def run_unrelated(ctrl):
    P = ctrl.MS[0].levels[0].prob
    ctrl.run(P.u_exact(0.0), 0.0, 0.1)


def twin_of(case, which):
    """a configuration one parameter away from `case` (same node counts, so that anything cached per (name, type, count) collides)"""
    t = dict(case)
    if which == 'node_type':
        t['nt'] = [x for x in ('LEGENDRE', 'EQUID', 'CHEBY-2', 'CHEBY-4') if x != case['nt']][case['pseed'] % 3]
    elif which == 'quad_type':
        t['qt'] = 'LOBATTO' if case['qt'] == 'RADAU-RIGHT' else 'RADAU-RIGHT'
        t['Ms'] = [max(2, m) for m in case['Ms']]
    elif which == 'dt':
        t['dt'] = case['dt'] * 0.37
    elif which == 'QI':
        t['QI'] = 'IE' if case['QI'] != 'IE' else 'LU'
    return t


def solo_run(case, first=None):
    """run `case` on a fresh controller (optionally after running another configuration first) and return digests; executed in
    a fresh interpreter by the near-twin relation"""
    from pySDC.implementations.hooks.log_solution import LogSolution

    from vf.gen import build_controller
    from vf.mon.tracehook import find_hook, make_trace_hook

    out = None
    for cfg in ([first] if first else []) + [case]:
        H = make_trace_hook(digests={'post_step'})
        ctrl, _ = build_controller(cfg, hooks=[LogSolution, H])
        P = ctrl.MS[0].levels[0].prob
        rng = np.random.default_rng(cfg['pseed'] + 3)
        u0 = P.u_init
        shp = np.asarray(u0).shape
        u0[...] = rng.standard_normal(shp) + (1j * rng.standard_normal(shp) if np.iscomplexobj(np.asarray(u0)) else 0)
        procs, dt, t0 = cfg['num_procs'], cfg['dt'], cfg['t0']
        Tend = t0 + (procs * cfg['nblocks'] - 0.5) * dt
        uend, stats = ctrl.run(u0, t0, Tend)
        ev = find_hook(ctrl, H).events
        out = dict(uend=digest(uend), steps=[[repr(e['time']), repr(e['dt']), e['iter'], e['dig'][0]['uend']] for e in ev if e['cb'] == 'post_step' and not e.get('restart')])
    return out


def solo_in_fresh_interpreter(case, first=None):
    import json
    import subprocess
    import sys

    code = 'import json, sys\nfrom vf.checks.C19 import solo_run\nd = json.load(sys.stdin)\nprint("RESULT" + json.dumps(solo_run(d["case"], d["first"])))'
    p = subprocess.run([sys.executable, '-c', code], input=json.dumps(dict(case=case, first=first)), capture_output=True, text=True, timeout=600)
    for ln in p.stdout.splitlines():
        if ln.startswith('RESULT'):
            return json.loads(ln[6:])
    raise RuntimeError(f'fresh interpreter failed: {p.stderr[-800:]}')


def global_state():
    """every mutable container (dict/list/set) bound at module level or class level in the loaded pySDC modules: the state that
    all controllers of a process share"""
    import inspect
    import sys

    out = {}
    for name, mod in list(sys.modules.items()):
        if not name.startswith('pySDC.') or mod is None:
            continue
        for k, v in list(vars(mod).items()):
            if k.startswith('__'):
                continue
            if isinstance(v, (dict, list, set)):
                try:
                    out[f'{name}.{k}'] = repr(v)[:4000]
                except Exception:  # noqa
                    pass
            elif inspect.isclass(v) and getattr(v, '__module__', None) == name:
                for a, av in list(vars(v).items()):
                    # `attrs` of the frozen classes is the registry of permitted attribute names: convergence controllers append
                    # their status variables to it by design (it only grows and carries no values)
                    if not a.startswith('__') and a != 'attrs' and isinstance(av, (dict, list, set)):
                        try:
                            out[f'{name}.{k}.{a}'] = repr(av)[:4000]
                        except Exception:  # noqa
                            pass
    return out


def run_case(case):
    # load the shared modules before the snapshot, so that the first case of a process already watches them
    import pySDC.core.collocation, pySDC.core.controller, pySDC.core.convergence_controller, pySDC.core.hooks, pySDC.core.level, pySDC.core.problem, pySDC.core.step, pySDC.core.sweeper  # noqa
    import pySDC.implementations.controller_classes.controller_nonMPI, pySDC.implementations.hooks.default_hook, pySDC.implementations.hooks.log_work  # noqa

    before = global_state()
    r = _run_case(case)
    after = global_state()
    changed = [k for k in before if k in after and before[k] != after[k]]
    r.check(not changed, 'process-wide-state-unchanged', f'{r.key}: building and running controllers changed state shared by every controller of the process: ' + '; '.join(f'{k}: {before[k][:200]} -> {after[k][:200]}' for k in changed[:2]))
    r.count('shared_containers_watched', len(before))
    return r


def _run_case(case):
    from pySDC.implementations.hooks.log_solution import LogSolution

    from vf.checks.C01 import config_key
    from vf.gen import build_controller
    from vf.mon.tracehook import find_hook, make_trace_hook
    from vf.ref import sdc as ref

    r = Result(case)
    r.key = config_key(case) + f"/{case['dt']}/{case['t0']}/{case['nblocks']}/{case['maxiter']}/{case.get('e_tol')}"
    tag = r.key
    try:
        for M in case['Ms']:
            ref.coll(M, case['nt'], case['qt'])
    except Exception:  # noqa
        r.check(True, 'noop', '')
        return r
    procs, dt, t0 = case['num_procs'], case['dt'], case['t0']
    nsteps = procs * case['nblocks']
    Tend = t0 + (nsteps - 0.5) * dt
    H = make_trace_hook(digests={'post_step'})

    def fresh():
        ctrl, desc = build_controller(case, hooks=[LogSolution, H])
        return ctrl

    def u_init(ctrl):
        P = ctrl.MS[0].levels[0].prob
        rng = np.random.default_rng(case['pseed'] + 3)
        u0 = P.u_init
        shp = np.asarray(u0).shape
        u0[...] = rng.standard_normal(shp) + (1j * rng.standard_normal(shp) if np.iscomplexobj(np.asarray(u0)) else 0)
        return u0

    def execute(ctrl, u0, ta, tb):
        hook = find_hook(ctrl, H)
        hook.events.clear()
        uend, stats = ctrl.run(u0, ta, tb)
        ev = list(hook.events)
        steps = sorted([(e['time'], e['dt'], e['iter'], e['dig'][0]['uend']) for e in ev if e['cb'] == 'post_step' and not e.get('restart')], key=lambda x: x[0])
        return dict(uend=digest(uend), uend_obj=uend, uend_arr=np.array(np.asarray(uend), copy=True), stats=stats_digest(stats), stats_obj=stats, trace=trace_digest(ev), steps=steps)

    try:
        c1 = fresh()
    except Exception:  # noqa
        r.count('rejected_at_construction')
        r.check(True, 'noop', '')
        return r
    try:
        base = execute(c1, u_init(c1), t0, Tend)
    except ZeroDivisionError:
        r.count('known_relative_residual_zero_division')
        r.check(True, 'noop', '')
        return r

    spacec = bool(case['space_coarsen'] and case['nlev'] > 1)
    kdep = False
    try:
        kdep = ref.kdependent(ref.coll(3), case['QI'])
    except Exception:  # noqa
        pass

    def same(a, b, what, mech=None, keys=('uend', 'stats', 'trace')):
        ok = True
        if mech is None and spacec and a['uend_arr'].shape == b['uend_arr'].shape and float(np.max(np.abs(a['uend_arr'] - b['uend_arr']))) <= 1e-11 * max(1.0, float(np.max(np.abs(a['uend_arr'])))) and len(a['trace']) == len(b['trace']):
            # known mechanism: the Lagrange space-transfer matrices are built with scipy's BarycentricInterpolator, which permutes its
            # nodes with an unseeded random generator: two constructions of the same hierarchy differ in the last bits
            mech = 'space-transfer-matrices-not-bit-reproducible-across-constructions'
        for k in keys:
            if a[k] != b[k]:
                ok = False
                detail = ''
                if k == 'stats':
                    ka, kb = set(a[k]), set(b[k])
                    diff = [x for x in ka & kb if a[k][x] != b[k][x]]
                    detail = f' ({len(ka - kb)} keys only in the reference, {len(kb - ka)} only in this run, {len(diff)} values differ; e.g. {(list(ka ^ kb) + diff)[:2]})'
                if k == 'trace':
                    i = next((i for i, (x, y) in enumerate(zip(a[k], b[k])) if x != y), min(len(a[k]), len(b[k])))
                    detail = f' (first difference at event {i}: {a[k][i] if i < len(a[k]) else None} vs {b[k][i] if i < len(b[k]) else None})'
                r.check(False, what, f'{tag}: {what}: {k} differs from the reference run{detail}', mech=mech)
        if ok:
            r.check(True, what, '')
        return ok

    # R1 fresh vs fresh
    c2 = fresh()
    same(base, execute(c2, u_init(c2), t0, Tend), 'fresh-controller-reproduces')
    # R2 same controller again
    rnd = case['initial_guess'] == 'random'
    again = execute(c1, u_init(c1), t0, Tend)
    same(base, again, 'same-controller-rerun-reproduces', mech='random-initial-guess-rng-not-rewound-between-runs' if rnd else ('k-dependent-preconditioner-state-survives-a-run' if kdep else None))
    # what the first run returned belongs to the caller: using the controller again must not change it
    r.check(stats_digest(base['stats_obj']) == base['stats'], 'earlier-results-survive-a-rerun', f"{tag}: the statistics returned by the first run() changed when the same controller was run again: {len(base['stats'])} entries when returned, {len(base['stats_obj'])} now")
    r.check(digest(base['uend_obj']) == base['uend'], 'earlier-results-survive-a-rerun', f'{tag}: the value returned by the first run() changed when the same controller was run again')
    # R3 fresh controller built after an unrelated controller was built and run
    u = unrelated_controller()
    run_unrelated(u)
    c3 = fresh()
    same(base, execute(c3, u_init(c3), t0, Tend), 'fresh-after-unrelated-controller')
    # R4 construction / run interleaved with an unrelated controller that stays alive
    c4 = fresh()
    u2 = unrelated_controller()
    run_unrelated(u2)
    r4 = execute(c4, u_init(c4), t0, Tend)
    same(base, r4, 'interleaved-with-unrelated-controller')
    run_unrelated(u2)
    # R6 a used controller behaves like a fresh one for a different (shorter) interval: nothing of the earlier run may leak into results or statistics
    Tshort = t0 + (procs - 0.5) * dt
    c5 = fresh()
    ref_short = execute(c5, u_init(c5), t0, Tshort)
    used_short = execute(c4, u_init(c4), t0, Tshort)
    same(ref_short, used_short, 'used-controller-equals-fresh-on-other-interval', mech='random-initial-guess-rng-not-rewound-between-runs' if rnd else ('k-dependent-preconditioner-state-survives-a-run' if kdep else None))
    # R8 two differently configured controllers built from the SAME parameter dictionary objects (what a script that edits one
    # `controller_params` / `description` in a loop does): the second must behave like one built from fresh dictionaries
    if not rnd:
        from pySDC.implementations.controller_classes.controller_nonMPI import controller_nonMPI
        from pySDC.implementations.convergence_controller_classes.adaptivity import Adaptivity

        from vf.gen import controller_params_for, description_for

        shared_cp = controller_params_for(case, [LogSolution, H])
        try:
            d_first = description_for(case)
            d_first['convergence_controllers'] = {Adaptivity: dict(e_tol=1e-6)}
            d_first['level_params'] = dict(d_first['level_params'], restol=-1)
            shared_cp_first = shared_cp
            mj = shared_cp_first.get('mssdc_jac')
            shared_cp_first['mssdc_jac'] = False
            first = controller_nonMPI(1, shared_cp_first, d_first)
            # the adaptive run of the first controller is only there to make it use its hooks: bound it by blocks, not by time
            orig_rb_ = first.restart_block
            cnt_ = dict(n=0)

            class _Enough(Exception):
                pass

            def rb_(active_slots, time, u0_):
                cnt_['n'] += 1
                if cnt_['n'] > 12:
                    raise _Enough()
                return orig_rb_(active_slots, time, u0_)

            first.restart_block = rb_
            try:
                first.run(u_init(first), t0, t0 + 2.5 * dt)
            except _Enough:
                pass
            shared_cp['mssdc_jac'] = mj
            c8 = controller_nonMPI(procs, shared_cp, description_for(case))
            same(base, execute(c8, u_init(c8), t0, Tend), 'controllers-sharing-a-parameter-dictionary')
            r.count('shared_dictionary_relations')
        except ZeroDivisionError:
            pass
        except Exception as e:  # noqa
            from vf.core import in_sut

            if in_sut(e) and 'Adaptivity' not in repr(e) and 'needs the same order' not in repr(e):
                r.count('shared_dictionary_first_controller_rejected')
            else:
                r.count('shared_dictionary_first_controller_rejected')
    # R7 a near-twin configuration (one parameter away) run first in the same process must not change the results: both
    # orders are executed in fresh interpreters, because caches that leak between controllers also leak between the cases
    # of this worker process
    if case.get('twin') and not rnd:
        tw = twin_of(case, case['twin'])
        try:
            alone = solo_in_fresh_interpreter({k: v for k, v in case.items() if not k.startswith('_')})
            after = solo_in_fresh_interpreter({k: v for k, v in case.items() if not k.startswith('_')}, first={k: v for k, v in tw.items() if not k.startswith('_')})
        except Exception as e:  # noqa
            r.count('twin_runs_failed')
            alone = after = None
        if alone is not None:
            mech7 = 'space-transfer-matrices-not-bit-reproducible-across-constructions' if spacec and len(alone['steps']) == len(after['steps']) and all(a[:3] == b[:3] for a, b in zip(alone['steps'], after['steps'])) else None
            r.check(alone == after, 'unaffected-by-near-twin-controller', f"{tag}: run after a controller differing only in {case['twin']} ({tw['nt']}/{tw['qt']}/{tw['QI']}/dt {tw['dt']}) differs from the run alone (fresh interpreters): steps {after['steps'][:2]} vs {alone['steps'][:2]}", mech=mech7)
            r.count('twin_relations')
    # R5 split at every block boundary, continue on the same controller and on a fresh one
    ref_steps = base['steps']
    for kb in range(1, case['nblocks']):
        for mode in ('same', 'fresh'):
            ca = fresh()
            Tsplit = t0 + (kb * procs - 0.5) * dt
            first = execute(ca, u_init(ca), t0, Tsplit)
            if not first['steps']:
                continue
            t_cont = first['steps'][-1][0] + first['steps'][-1][1]
            cb = ca if mode == 'same' else fresh()
            if mode == 'same' and rnd:
                continue  # covered by the re-run relation (known mechanism)
            if rnd and mode == 'fresh':
                continue  # a fresh controller restarts the random stream: not comparable by construction
            second = execute(cb, first['uend_obj'], t_cont, Tend)
            got = first['steps'] + second['steps']
            ok_len = len(got) == len(ref_steps)
            r.check(ok_len, 'split-run-same-steps', f'{tag}: split after block {kb} ({mode} controller) gives {len(got)} steps, uninterrupted {len(ref_steps)}')
            if not ok_len:
                continue
            for i, (a, b) in enumerate(zip(ref_steps, got)):
                if a == b:
                    r.check(True, 'split-run-bit-identical', '')
                    continue
                # known mechanism: the first block of a run computes its start times as t0 + sum(dt_0..dt_{p-1}); later blocks add dt
                # incrementally -> start times of slots >= 2 in the continued block may differ by an ulp, values then differ by rounding
                dtime = abs(a[0] - b[0])
                ulp = float(np.spacing(max(abs(a[0]), abs(b[0]), abs(t0), abs(Tend), 1e-300))) * (i - kb * procs + 2)
                slot_in_block = i % procs
                mech = None
                if spacec and dtime == 0 and a[2] == b[2]:
                    mech = 'space-transfer-matrices-not-bit-reproducible-across-constructions'
                if kdep and (dtime == 0 or (procs >= 3 and i >= kb * procs and dtime <= 4 * ulp)):
                    # the stale coefficients also survive from step to step inside one run, which a freshly built continuation cannot reproduce
                    mech = 'k-dependent-preconditioner-state-survives-a-run'
                if procs >= 3 and i >= kb * procs and dtime <= 4 * ulp and a[2] == b[2] and a[1] == b[1]:
                    tdiffers = any(abs(x[0] - y[0]) > 0 for x, y in zip(ref_steps[kb * procs:], got[kb * procs:]))
                    if tdiffers:
                        mech = 'first-block-start-times-use-a-different-float-expression'
                r.check(False, 'split-run-bit-identical', f'{tag}: split after block {kb} ({mode} controller): step {i} (slot {slot_in_block}) differs from the uninterrupted run: start {a[0]!r} vs {b[0]!r}, niter {a[2]} vs {b[2]}, value digest equal: {a[3] == b[3]}', mech=mech)
            r.count('splits')
    r.nontrivial = case['nblocks'] >= 2
    r.observe('prob', case['prob'])
    r.observe('guess', case['initial_guess'])
    r.observe('procs_levels', f"{procs}x{case['nlev']}")
    r.sample = dict(case={k: v for k, v in case.items() if not k.startswith('_')}, steps=len(ref_steps))
    return r


def finalize(agg):
    out = []
    c = agg['counters']
    for k in ('oracle:fresh-controller-reproduces', 'oracle:same-controller-rerun-reproduces', 'oracle:fresh-after-unrelated-controller', 'oracle:interleaved-with-unrelated-controller', 'oracle:split-run-bit-identical', 'oracle:unaffected-by-near-twin-controller', 'oracle:controllers-sharing-a-parameter-dictionary', 'oracle:earlier-results-survive-a-rerun'):
        if c.get(k, 0) == 0:
            out.append(f'monitor {k} never evaluated')
    if c.get('shared_containers_watched', 0) == 0:
        out.append('no module- or class-level container of pySDC was watched across a case')
    return out
